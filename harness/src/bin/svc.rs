//! Driver for the end-to-end composition X01 (spec/service/*.tla): a service-shaped program.
//!
//! Request handlers (OS threads or tokio tasks) create `#[metrics]` unit-of-work entries (a timer on
//! a manually advanced time source, counter fields, string fields, a timestamp, optionally a slot or
//! a flush guard handed to a sub-task), mutate them and drop them; the entries go through the global
//! `ServiceMetrics` to a real `BackgroundQueue` whose stream is the real `Emf` formatter (all
//! validations) over a recording `io::Write`.  The operator attaches, requests flushes and drops the
//! attach handle while requests are still arriving.
//!
//!   svc run --scenarios s.ndjson --out trace.ndjson --meta meta.ndjson
//!       T direction: free-running seeded scenarios under `sched` perturbation; the trace is validated
//!       by TLC against ServiceTrace.tla
//!   svc seq --behaviours b.ndjson --out trace.ndjson --meta meta.ndjson --results r.ndjson
//!       R direction: TLC behaviours of ServiceReplay.tla (sequences of request operations, flushes,
//!       attach / handle drop) executed one operation after the other; the results of the calls and
//!       the output after every completed flush / handle drop are compared with what TLC computed,
//!       and the recorded trace is validated as well
//!
//! Events (one ndjson line each, totally ordered by the trace module):
//!   Reset{cap}  AttachStart AttachEnd{ok}  DetachStart DetachEnd  FlushReq{f} FlushDone{f}
//!   ReqStart{p,e,mode,op,ts}  SinkStart{e,h} SinkEnd{e,ok}  Work{e,by,d}  SubWork{e,by,d}
//!   DropStart{e,k,r} DropEnd{e,k}  TryStart{e,h,r} TryEnd{e,ok}
//!   Line{e,op,ts,c,h,t,sub}  WFlush  WClose   (from inside the recording writer = the writer thread)
//!   Quiesce
//!   BadLine{why,..} Panic{..} DetachTimeout FlushTimeout{f} Altered{e}   (consumed by no action)

use metrique::timers::{Timer, Timestamp};
use metrique::unit::Count;
use metrique::unit_of_work::metrics;
use metrique::writer::{AnyEntrySink, AttachGlobalEntrySink, BoxEntrySink, FormatExt};
use metrique::{CloseValue, Counter, FlushGuard, OnParentDrop, RootEntry, ServiceMetrics, Slot, SlotGuard};
use metrique_timesource::{TimeSource, fakes::ManuallyAdvancedTimeSource};
use metrique_writer::sink::{AttachHandle, BackgroundQueueBuilder};
use metrique_writer_format_emf::Emf;
use rand::Rng;
use serde::Deserialize;
use serde_json::{Value, json};
use std::collections::HashMap;
use std::future::Future;
use std::io::Write;
use std::pin::Pin;
use std::sync::atomic::{AtomicBool, Ordering};
use std::sync::{Arc, Barrier, Condvar, Mutex, mpsc};
use std::task::{Context, Poll, Wake, Waker};
use std::time::{Duration, Instant, UNIX_EPOCH};
use vharness::{emf, sched, trace, util};

const BUDGET: Duration = Duration::from_secs(10);
/// wall-clock origin of the requests' manual clocks: request e starts at BASE_MS + e
const BASE_MS: u64 = 1_700_000_000_000;
const OPS: [&str; 4] = ["GetItem", "PutItem", "Query", "Scan\u{e9}\"\\"];

// ------------------------------------------------------------------------------------------
// the unit-of-work entry
// ------------------------------------------------------------------------------------------

#[metrics(rename_all = "PascalCase")]
struct RequestMetrics {
    request_id: String,
    operation: &'static str,
    #[metrics(timestamp)]
    started: Timestamp,
    #[metrics(unit = Count)]
    items: usize,
    hits: Counter,
    latency: Timer,
    #[metrics(flatten)]
    sub: Slot<SubMetrics>,
}

#[metrics(subfield, rename_all = "PascalCase")]
#[derive(Default)]
struct SubMetrics {
    sub_items: usize,
}

struct Clock(ManuallyAdvancedTimeSource);
impl Clock {
    fn new(e: u64) -> Clock {
        Clock(ManuallyAdvancedTimeSource::at_time(UNIX_EPOCH + Duration::from_millis(BASE_MS + e)))
    }
    fn source(&self) -> TimeSource {
        TimeSource::custom(self.0.clone())
    }
    fn advance_us(&self, d: u64) {
        if d > 0 {
            self.0.update_instant(Duration::from_micros(d));
        }
    }
}

fn new_metrics(e: u64, op: &'static str, clock: &Clock) -> RequestMetrics {
    RequestMetrics {
        request_id: format!("r{e}"),
        operation: op,
        started: Timestamp::new_from_time_source(clock.source()),
        items: 0,
        hits: Counter::default(),
        latency: Timer::start_now_with_timesource(clock.source()),
        sub: Default::default(),
    }
}

fn mutate(m: &mut RequestMetrics, by: u64) {
    for _ in 0..by {
        m.items += 1;
    }
    // through the shared reference, in two portions and one increment
    if by > 0 {
        m.hits.add((by - 1) / 2);
        m.hits.add(by - 1 - (by - 1) / 2);
        m.hits.increment();
    }
}

/// what the sub-task holds
enum SubGuard {
    Flush(#[allow(dead_code)] FlushGuard),
    Slot(SlotGuard<SubMetrics>),
}

// ------------------------------------------------------------------------------------------
// the recording writer behind the Emf formatter
// ------------------------------------------------------------------------------------------

#[derive(Clone, Default)]
struct OutLog(Arc<Mutex<Vec<Value>>>);

struct RecWriter {
    buf: Vec<u8>,
    epoch: u64,
    /// accept at most this many bytes per `write` call (0 = everything)
    short: usize,
    calls: u64,
    lines: OutLog,
}

impl RecWriter {
    fn live(&self) -> bool {
        self.epoch == trace::epoch()
    }
}

fn int_member(v: &Value) -> Option<i64> {
    let t = v["n"].as_str()?;
    let f: f64 = t.parse().ok()?;
    if f.fract() != 0.0 || f.abs() > 1e9 { None } else { Some(f as i64) }
}

/// Strict judgement of one output line (json.rs + the EMF projection of emf.rs); Ok = the Line event
fn judge_line(line: &[u8]) -> Result<Value, String> {
    let mut with_nl = line.to_vec();
    with_nl.push(b'\n');
    let p = emf::project(&with_nl);
    if !p["framing"].is_null() {
        return Err(format!("framing: {}", p["framing"]));
    }
    let ls = p["lines"].as_array().unwrap();
    if ls.len() != 1 {
        return Err("not exactly one line".into());
    }
    let l = &ls[0];
    if let Some(e) = l.get("json_err") {
        return Err(format!("invalid JSON: {e} at {}", l["pos"]));
    }
    if !l["skeleton_err"].is_null() {
        return Err(format!("EMF skeleton: {}", l["skeleton_err"]));
    }
    if l["dups"].as_array().is_some_and(|d| !d.is_empty()) {
        return Err(format!("duplicate members {}", l["dups"]));
    }
    let dirs = l["aws"]["directives"].as_array().unwrap();
    if dirs.len() != 1 || dirs[0]["ns"] != "Svc" || dirs[0]["dims"] != json!([["Operation"]]) {
        return Err(format!("directives {}", l["aws"]["directives"]));
    }
    let mut units: HashMap<String, Value> = HashMap::new();
    for m in dirs[0]["metrics"].as_array().unwrap() {
        if units.insert(m["name"].as_str().unwrap().to_string(), m["unit"].clone()).is_some() {
            return Err(format!("metric {} declared twice", m["name"]));
        }
    }
    let mut nums: HashMap<String, &Value> = HashMap::new();
    let mut strs: HashMap<String, String> = HashMap::new();
    for m in l["members"].as_array().unwrap() {
        let name = m["name"].as_str().unwrap().to_string();
        if let Some(s) = m["v"]["s"].as_str() {
            strs.insert(name, s.to_string());
        } else if m["v"].get("n").is_some() {
            nums.insert(name, &m["v"]);
        } else {
            return Err(format!("member {name} is neither a string nor a number: {}", m["v"]));
        }
    }
    let mut declared: Vec<&String> = units.keys().collect();
    let mut numeric: Vec<&String> = nums.keys().collect();
    declared.sort();
    numeric.sort();
    if declared != numeric {
        return Err(format!("declared metrics {declared:?} differ from numeric members {numeric:?}"));
    }
    let mut skeys: Vec<&String> = strs.keys().collect();
    skeys.sort();
    if skeys != ["Operation", "RequestId"] {
        return Err(format!("string members {skeys:?} (expected Operation, RequestId)"));
    }
    for k in numeric.iter() {
        if !["Items", "Hits", "Latency", "SubItems"].contains(&k.as_str()) {
            return Err(format!("unexpected metric {k}"));
        }
    }
    let e: i64 = strs["RequestId"].strip_prefix('r').and_then(|x| x.parse().ok()).ok_or("RequestId is not r<number>")?;
    let c = nums.get("Items").and_then(|v| int_member(v)).ok_or("Items missing or not an integer")?;
    if units["Items"] != "Count" {
        return Err(format!("unit of Items is {}", units["Items"]));
    }
    let h = nums.get("Hits").and_then(|v| int_member(v)).ok_or("Hits missing or not an integer")?;
    let sub = match nums.get("SubItems") {
        None => -1,
        Some(v) => int_member(v).ok_or("SubItems not an integer")?,
    };
    let lat: f64 = nums.get("Latency").and_then(|v| v["n"].as_str()).and_then(|t| t.parse().ok()).ok_or("Latency missing")?;
    let factor = match units["Latency"].as_str() {
        Some("Microseconds") => 1.0,
        Some("Milliseconds") => 1e3,
        Some("Seconds") => 1e6,
        other => return Err(format!("unit of Latency is {other:?}")),
    };
    let us = lat * factor;
    if (us - us.round()).abs() > 1e-6 || !(0.0..1e9).contains(&us) {
        return Err(format!("Latency {lat} {} is not a whole number of microseconds", units["Latency"]));
    }
    let ts_abs: u64 = l["aws"]["ts"].as_str().and_then(|t| t.parse().ok()).ok_or("timestamp")?;
    let ts = if ts_abs >= BASE_MS && ts_abs - BASE_MS < 1_000_000_000 { (ts_abs - BASE_MS) as i64 } else { -1 };
    Ok(json!({"ev": "Line", "e": e, "op": strs["Operation"], "ts": ts, "c": c, "h": h, "t": us.round() as i64, "sub": sub}))
}

impl Write for RecWriter {
    fn write(&mut self, b: &[u8]) -> std::io::Result<usize> {
        self.calls += 1;
        let n = if self.short > 0 && b.len() > 1 { 1 + (self.calls as usize * 7919) % self.short.min(b.len()) } else { b.len() };
        self.buf.extend_from_slice(&b[..n]);
        while let Some(pos) = self.buf.iter().position(|c| *c == b'\n') {
            let line: Vec<u8> = self.buf.drain(..=pos).collect();
            let ev = match judge_line(&line[..line.len() - 1]) {
                Ok(ev) => ev,
                Err(why) => json!({"ev": "BadLine", "why": why, "line": String::from_utf8_lossy(&line[..line.len().min(400)])}),
            };
            self.lines.0.lock().unwrap().push(ev.clone());
            if self.live() {
                trace::ev(ev);
            }
        }
        Ok(n)
    }
    fn flush(&mut self) -> std::io::Result<()> {
        if self.live() {
            trace::ev_dedup(json!({"ev": "WFlush"}));
        }
        Ok(())
    }
}

impl Drop for RecWriter {
    fn drop(&mut self) {
        if self.live() {
            if !self.buf.is_empty() {
                trace::ev(json!({"ev": "BadLine", "why": "unterminated output at close",
                                 "line": String::from_utf8_lossy(&self.buf[..self.buf.len().min(400)])}));
            }
            trace::ev(json!({"ev": "WClose"}));
        }
    }
}

fn build_queue(cap: usize, flush_us: u64, short: usize, name: String, lines: OutLog) -> (BoxEntrySink, metrique_writer::sink::BackgroundQueueJoinHandle) {
    let w = RecWriter { buf: Vec::new(), epoch: trace::epoch(), short, calls: 0, lines };
    let stream = Emf::all_validations("Svc".into(), vec![vec!["Operation".into()]]).output_to(w);
    BackgroundQueueBuilder::new()
        .capacity(cap)
        .flush_interval(Duration::from_micros(flush_us.max(1)))
        .thread_name(name)
        .build_boxed(stream)
}

// ------------------------------------------------------------------------------------------
// operator: flush requests, attach-handle drop
// ------------------------------------------------------------------------------------------

struct FlushWaker {
    f: i64,
    logged: AtomicBool,
    woke: Mutex<bool>,
    cv: Condvar,
}
impl FlushWaker {
    fn log_done(&self) {
        if !self.logged.swap(true, Ordering::SeqCst) {
            trace::evi("FlushDone", &[("f", self.f)]);
        }
    }
}
impl Wake for FlushWaker {
    fn wake(self: Arc<Self>) {
        // runs synchronously in the thread that completes the flush (the writer thread), so the
        // event is exactly ordered against Line / WFlush / WClose
        self.log_done();
        *self.woke.lock().unwrap() = true;
        self.cv.notify_all();
    }
}

fn do_flush(q: &BoxEntrySink, f: i64) -> bool {
    trace::evi("FlushReq", &[("f", f)]);
    let mut fut = AnyEntrySink::flush_async(q);
    let w = Arc::new(FlushWaker { f, logged: AtomicBool::new(false), woke: Mutex::new(false), cv: Condvar::new() });
    let waker = Waker::from(w.clone());
    let mut cx = Context::from_waker(&waker);
    let deadline = Instant::now() + BUDGET;
    loop {
        if let Poll::Ready(()) = Pin::new(&mut fut).poll(&mut cx) {
            w.log_done();
            return true;
        }
        let g = w.woke.lock().unwrap();
        let now = Instant::now();
        if now >= deadline {
            trace::evi("FlushTimeout", &[("f", f)]);
            return false;
        }
        let (mut g, _) = w.cv.wait_timeout_while(g, deadline - now, |woke| !*woke).unwrap();
        *g = false;
    }
}

/// Drop the attach handle in a helper thread; false = it did not return within the budget
fn watched_detach(handle: AttachHandle) -> bool {
    trace::evi("DetachStart", &[]);
    let (tx, rx) = mpsc::channel();
    let t = std::thread::spawn(move || {
        let r = util::catch(|| drop(handle));
        let _ = tx.send(r.is_ok());
    });
    match rx.recv_timeout(BUDGET) {
        Ok(true) => {
            trace::evi("DetachEnd", &[]);
            let _ = t.join();
            true
        }
        Ok(false) => {
            trace::ev(json!({"ev": "Panic", "what": "attach handle drop"}));
            false
        }
        Err(_) => {
            trace::evi("DetachTimeout", &[]);
            false
        }
    }
}

// ------------------------------------------------------------------------------------------
// one request
// ------------------------------------------------------------------------------------------

#[derive(Clone, Debug)]
struct ReqPlan {
    p: i64,
    e: u64,
    mode: &'static str,
    op: &'static str,
    by: u64,
    d: u64,
    sub_by: u64,
    sub_d: u64,
    /// the sub-task drops its guard after this long
    sub_delay_us: u64,
    /// the owner waits this long between handing the guard over and dropping the entry
    owner_delay_us: u64,
}

struct SubJob {
    e: u64,
    guard: SubGuard,
    clock: Clock,
    by: u64,
    d: u64,
    delay_us: u64,
}

fn run_sub(job: SubJob) {
    let e = job.e as i64;
    if job.delay_us > 0 {
        std::thread::sleep(Duration::from_micros(job.delay_us));
    }
    let mut guard = job.guard;
    let r = util::catch(move || {
        if job.by > 0 || job.d > 0 {
            if let SubGuard::Slot(sg) = &mut guard {
                for _ in 0..job.by {
                    sg.sub_items += 1;
                }
            }
            job.clock.advance_us(job.d);
            trace::evi("SubWork", &[("e", e), ("by", job.by as i64), ("d", job.d as i64)]);
        }
        trace::ev(json!({"ev": "DropStart", "e": e, "k": "g"}));
        drop(guard);
        trace::ev(json!({"ev": "DropEnd", "e": e, "k": "g"}));
    });
    if let Err(m) = r {
        trace::ev(json!({"ev": "Panic", "e": e, "what": m}));
    }
}

/// An open unit of work of the guard modes (between `open_request` and `drop_owner`)
struct OpenReq {
    e: u64,
    m: RequestMetricsGuard,
}

/// ReqStart, try_sink, entry creation, mutation; returns the entry (None = no sink) and the sub-task's job
fn open_request(rp: &ReqPlan) -> (Option<OpenReq>, Option<SubJob>) {
    let e = rp.e as i64;
    trace::ev(json!({"ev": "ReqStart", "p": rp.p, "e": e, "mode": rp.mode, "op": rp.op, "ts": e}));
    let clock = Clock::new(rp.e);
    trace::evi("SinkStart", &[("e", e)]);
    let sink = ServiceMetrics::try_sink();
    trace::evi("SinkEnd", &[("e", e), ("ok", sink.is_some() as i64)]);
    let Some(sink) = sink else { return (None, None) };
    let mut m = new_metrics(rp.e, rp.op, &clock).append_on_drop(sink);
    let guard = match rp.mode {
        "fg" => Some(SubGuard::Flush(m.flush_guard())),
        "wait" => {
            let fg = m.flush_guard();
            Some(SubGuard::Slot(m.sub.open(OnParentDrop::Wait(fg)).expect("fresh slot")))
        }
        "disc" => Some(SubGuard::Slot(m.sub.open(OnParentDrop::Discard).expect("fresh slot"))),
        _ => None,
    };
    mutate(&mut m, rp.by);
    clock.advance_us(rp.d);
    trace::evi("Work", &[("e", e), ("by", rp.by as i64), ("d", rp.d as i64)]);
    let job = guard.map(|g| SubJob { e: rp.e, guard: g, clock: Clock(clock.0.clone()), by: rp.sub_by, d: rp.sub_d, delay_us: rp.sub_delay_us });
    (Some(OpenReq { e: rp.e, m }), job)
}

fn drop_owner(o: OpenReq) {
    let e = o.e as i64;
    trace::ev(json!({"ev": "DropStart", "e": e, "k": "o"}));
    drop(o.m);
    trace::ev(json!({"ev": "DropEnd", "e": e, "k": "o"}));
}

/// try mode: create, mutate, close, try_append
fn try_request(rp: &ReqPlan) -> bool {
    let e = rp.e as i64;
    trace::ev(json!({"ev": "ReqStart", "p": rp.p, "e": e, "mode": "try", "op": rp.op, "ts": e}));
    let clock = Clock::new(rp.e);
    let mut m = new_metrics(rp.e, rp.op, &clock);
    mutate(&mut m, rp.by);
    clock.advance_us(rp.d);
    trace::evi("Work", &[("e", e), ("by", rp.by as i64), ("d", rp.d as i64)]);
    let closed = m.close();
    trace::evi("TryStart", &[("e", e)]);
    let r = ServiceMetrics::try_append(RootEntry::new(closed));
    let ok = r.is_ok();
    if let Err(back) = r {
        // the entry handed back must be the entry given: format it and compare with the request
        let mut bytes = Vec::new();
        let mut f = Emf::all_validations("Svc".into(), vec![vec!["Operation".into()]]);
        use metrique_writer::format::Format;
        let same = f.format(&back, &mut bytes).is_ok()
            && judge_line(bytes.strip_suffix(b"\n").unwrap_or(&bytes)).is_ok_and(|l| {
                l["e"] == e && l["c"] == rp.by as i64 && l["h"] == rp.by as i64 && l["t"] == rp.d as i64 && l["op"] == rp.op && l["sub"] == -1
            });
        if !same {
            trace::evi("Altered", &[("e", e)]);
        }
    }
    trace::evi("TryEnd", &[("e", e), ("ok", ok as i64)]);
    ok
}

/// A whole request as a handler executes it
fn handle_request(rp: &ReqPlan, sub: &mut dyn FnMut(SubJob)) {
    let r = util::catch(|| {
        if rp.mode == "try" {
            try_request(rp);
            return;
        }
        let (open, job) = open_request(rp);
        if let Some(j) = job {
            sub(j);
        }
        if let Some(o) = open {
            if rp.owner_delay_us > 0 {
                std::thread::sleep(Duration::from_micros(rp.owner_delay_us));
            }
            drop_owner(o);
        }
    });
    if let Err(m) = r {
        trace::ev(json!({"ev": "Panic", "e": rp.e as i64, "what": m}));
    }
}

// ------------------------------------------------------------------------------------------
// search hints and scenario bookkeeping
// ------------------------------------------------------------------------------------------

/// h = result the call reports later; r = position of the request's line in the output (0 = never)
fn annotate(evs: &mut [Value]) {
    let mut res: HashMap<i64, i64> = HashMap::new();
    let mut rank: HashMap<i64, i64> = HashMap::new();
    let mut n = 0i64;
    for e in evs.iter() {
        match e["ev"].as_str().unwrap_or("") {
            "SinkEnd" | "TryEnd" => {
                res.insert(e["e"].as_i64().unwrap(), e["ok"].as_i64().unwrap());
            }
            "Line" => {
                n += 1;
                rank.entry(e["e"].as_i64().unwrap_or(-1)).or_insert(n);
            }
            "Reset" => {
                n = 0;
                rank.clear();
            }
            _ => {}
        }
    }
    for e in evs.iter_mut() {
        let name = e["ev"].as_str().unwrap_or("").to_string();
        let id = e["e"].as_i64().unwrap_or(-1);
        if name == "SinkStart" || name == "TryStart" {
            e["h"] = json!(res.get(&id).copied().unwrap_or(0));
        }
        if name == "DropStart" || name == "TryStart" {
            e["r"] = json!(rank.get(&id).copied().unwrap_or(0));
        }
    }
}

// ------------------------------------------------------------------------------------------
// T: free-running scenarios
// ------------------------------------------------------------------------------------------

#[derive(Deserialize, Clone, Debug)]
struct HandlerSpec {
    n: u64,
    #[serde(default)]
    pace_us: u64,
}

#[derive(Deserialize, Clone, Debug)]
struct FlusherSpec {
    count: u64,
    #[serde(default)]
    delay_us: u64,
    #[serde(default)]
    gap_us: u64,
}

#[derive(Deserialize, Clone, Debug)]
struct Scenario {
    id: u64,
    seed: u64,
    handlers: Vec<HandlerSpec>,
    /// weights of the modes try, guard, fg, wait, disc
    modes: [u32; 5],
    #[serde(default)]
    flushers: Vec<FlusherSpec>,
    flush_us: u64,
    #[serde(default)]
    short: usize,
    /// the operator attaches this long after the handlers were released (requests before it find no sink)
    #[serde(default)]
    attach_delay_us: u64,
    /// "graceful": the handle is dropped after every handler and sub-task has finished;
    /// "race": it is dropped `hold_us` after the attach while requests are still arriving
    end: String,
    #[serde(default)]
    hold_us: u64,
    #[serde(default)]
    sub_delay_us: u64,
    #[serde(default)]
    owner_delay_us: u64,
    #[serde(default)]
    permille: u32,
    #[serde(default)]
    max_us: u32,
    /// handlers are tokio tasks on a multi-thread runtime, sub-tasks are spawned tasks
    #[serde(default)]
    tokio: bool,
    /// perturb only the point between the destination lookup and the append inside try_append
    /// (delaying the queue's own points slows the shutdown down more than it widens that window)
    #[serde(default)]
    lookup_permille: u32,
    #[serde(default)]
    lookup_max_us: u32,
}

static LOOKUP_PERMILLE: std::sync::atomic::AtomicU32 = std::sync::atomic::AtomicU32::new(0);
static LOOKUP_MAX_US: std::sync::atomic::AtomicU32 = std::sync::atomic::AtomicU32::new(0);
static LOOKUP_SEED: std::sync::atomic::AtomicU64 = std::sync::atomic::AtomicU64::new(0);
thread_local! { static LOOKUP_RNG: std::cell::Cell<u64> = const { std::cell::Cell::new(0) }; }

/// The hook of this driver: the cooperative controller's perturbation, or the lookup-only delay
fn install_hook() {
    let _ = sched::controller(); // installs its own hook; replaced by the one below, which delegates to it
    metrique_writer_core::verif::install(Some(Arc::new(|name, args| {
        let permille = LOOKUP_PERMILLE.load(Ordering::Relaxed);
        if permille == 0 {
            sched::point(name, args);
            return;
        }
        if name != "gs.lookup" {
            return;
        }
        let r = LOOKUP_RNG.with(|c| {
            let mut x = c.get();
            if x == 0 {
                use std::hash::{Hash, Hasher};
                let mut h = std::collections::hash_map::DefaultHasher::new();
                std::thread::current().id().hash(&mut h);
                x = (LOOKUP_SEED.load(Ordering::Relaxed) ^ h.finish()) | 1;
            }
            x ^= x << 13;
            x ^= x >> 7;
            x ^= x << 17;
            c.set(x);
            x
        });
        if (r % 1000) < permille as u64 {
            let us = (r >> 24) % (LOOKUP_MAX_US.load(Ordering::Relaxed).max(1) as u64);
            std::thread::sleep(Duration::from_micros(us));
        }
    })));
}

const MODES: [&str; 5] = ["try", "guard", "fg", "wait", "disc"];

fn plan_request(rng: &mut impl Rng, sc: &Scenario, p: i64, i: u64) -> ReqPlan {
    let total: u32 = sc.modes.iter().sum();
    let mut x = rng.random_range(0..total.max(1));
    let mut mode = MODES[0];
    for (k, w) in sc.modes.iter().enumerate() {
        if x < *w {
            mode = MODES[k];
            break;
        }
        x -= w;
    }
    let enabling = mode == "fg" || mode == "wait";
    let slot = mode == "wait" || mode == "disc";
    ReqPlan {
        p,
        e: p as u64 * 1000 + i,
        mode,
        op: OPS[rng.random_range(0..OPS.len())],
        by: rng.random_range(0..6),
        d: [0, 1, 250, 1500, 1_000_000, 59_999_999][rng.random_range(0..6)],
        sub_by: if slot { rng.random_range(0..4) } else { 0 },
        sub_d: if enabling { [0, 0, 7, 2000][rng.random_range(0..4)] } else { 0 },
        sub_delay_us: if sc.sub_delay_us > 0 { rng.random_range(0..=sc.sub_delay_us) } else { 0 },
        owner_delay_us: if sc.owner_delay_us > 0 && rng.random::<bool>() { rng.random_range(0..=sc.owner_delay_us) } else { 0 },
    }
}

/// returns false when the process can not go on (the attach handle drop did not return)
fn run_scenario(sc: &Scenario) -> bool {
    let ctrl = sched::controller();
    trace::set_epoch(sc.id);
    let total: u64 = sc.handlers.iter().map(|h| h.n).sum();
    let cap = (total + 8) as usize;
    trace::ev(json!({"ev": "Reset", "cap": cap as i64, "scenario": sc.id as i64}));
    if sc.permille > 0 && sc.lookup_permille == 0 {
        ctrl.begin_perturb(sc.seed, sc.permille, sc.max_us, false);
    } else {
        ctrl.free_run();
    }
    LOOKUP_SEED.store(sc.seed, Ordering::Relaxed);
    LOOKUP_MAX_US.store(sc.lookup_max_us, Ordering::Relaxed);
    LOOKUP_PERMILLE.store(sc.lookup_permille, Ordering::Relaxed);
    let (q, h) = build_queue(cap, sc.flush_us, sc.short, format!("svcw-{}", sc.id), OutLog::default());
    let qc = q.clone();
    let nh = sc.handlers.len();
    let start = Arc::new(Barrier::new(nh + sc.flushers.len() + 1));
    let handlers_done = Arc::new((Mutex::new(0usize), Condvar::new()));
    let rt = if sc.tokio {
        Some(tokio::runtime::Builder::new_multi_thread().worker_threads(3).enable_all().build().unwrap())
    } else {
        None
    };
    let mut threads = Vec::new();
    for (pi, hs) in sc.handlers.iter().enumerate() {
        let p = (pi + 1) as i64;
        let mut rng = util::rng(sc.seed ^ (p as u64).wrapping_mul(0x9E37_79B9_7F4A_7C15));
        let plans: Vec<ReqPlan> = (1..=hs.n).map(|i| plan_request(&mut rng, sc, p, i)).collect();
        let start = start.clone();
        let done = handlers_done.clone();
        let pace = hs.pace_us;
        if let Some(rt) = &rt {
            let handle = rt.handle().clone();
            let jh = rt.spawn(async move {
                tokio::task::spawn_blocking(move || start.wait()).await.unwrap();
                let mut subs = Vec::new();
                for rp in &plans {
                    let mut spawn_sub = |j: SubJob| {
                        subs.push(handle.spawn(async move {
                            let mut j = j;
                            let d = j.delay_us;
                            j.delay_us = 0;
                            if d > 0 {
                                tokio::time::sleep(Duration::from_micros(d)).await;
                            }
                            run_sub(j);
                        }));
                    };
                    handle_request(rp, &mut spawn_sub);
                    if pace > 0 {
                        tokio::time::sleep(Duration::from_micros(pace)).await;
                    } else {
                        tokio::task::yield_now().await;
                    }
                }
                for s in subs {
                    let _ = s.await;
                }
                *done.0.lock().unwrap() += 1;
                done.1.notify_all();
            });
            threads.push(std::thread::spawn(move || {
                let _ = futures::executor::block_on(jh);
            }));
        } else {
            threads.push(std::thread::spawn(move || {
                // the handler's companion thread runs its sub-tasks
                let (tx, rx) = mpsc::channel::<SubJob>();
                let sub_thread = std::thread::spawn(move || {
                    while let Ok(j) = rx.recv() {
                        run_sub(j);
                    }
                });
                start.wait();
                for rp in &plans {
                    handle_request(rp, &mut |j| {
                        let _ = tx.send(j);
                    });
                    if pace > 0 {
                        std::thread::sleep(Duration::from_micros(pace));
                    }
                }
                drop(tx);
                let _ = sub_thread.join();
                *done.0.lock().unwrap() += 1;
                done.1.notify_all();
            }));
        }
    }
    let fcount = Arc::new(std::sync::atomic::AtomicI64::new(0));
    for fl in sc.flushers.iter().cloned() {
        let q = qc.clone();
        let start = start.clone();
        let fcount = fcount.clone();
        threads.push(std::thread::spawn(move || {
            start.wait();
            std::thread::sleep(Duration::from_micros(fl.delay_us));
            for _ in 0..fl.count {
                let f = fcount.fetch_add(1, Ordering::SeqCst) + 1;
                do_flush(&q, f);
                std::thread::sleep(Duration::from_micros(fl.gap_us));
            }
        }));
    }
    start.wait();
    if sc.attach_delay_us > 0 {
        std::thread::sleep(Duration::from_micros(sc.attach_delay_us));
    }
    trace::evi("AttachStart", &[]);
    let handle = match util::catch(|| ServiceMetrics::attach((q, h))) {
        Ok(hd) => {
            trace::evi("AttachEnd", &[("ok", 1)]);
            hd
        }
        Err(m) => {
            trace::ev(json!({"ev": "AttachEnd", "ok": 0, "what": m}));
            return false;
        }
    };
    if sc.end == "race" {
        std::thread::sleep(Duration::from_micros(sc.hold_us));
    } else {
        let g = handlers_done.0.lock().unwrap();
        let _ = handlers_done.1.wait_timeout_while(g, Duration::from_secs(60), |d| *d < nh).unwrap();
        // one more flush request right before the shutdown
        if sc.seed % 3 == 0 {
            do_flush(&qc, fcount.fetch_add(1, Ordering::SeqCst) + 1);
        }
    }
    let ok = watched_detach(handle);
    for t in threads {
        let _ = t.join();
    }
    drop(rt);
    drop(qc);
    if ok {
        trace::evi("Quiesce", &[]);
    }
    ctrl.free_run();
    LOOKUP_PERMILLE.store(0, Ordering::Relaxed);
    ok
}

fn cmd_run(a: &HashMap<String, String>) {
    std::panic::set_hook(Box::new(|_| {}));
    install_hook();
    let scen = util::read_ndjson(util::arg_str(a, "scenarios", ""));
    let mut out = std::io::BufWriter::new(std::fs::File::create(util::arg_str(a, "out", "")).unwrap());
    let mut meta = std::io::BufWriter::new(std::fs::File::create(util::arg_str(a, "meta", "")).unwrap());
    let mut line = 1usize;
    for v in scen {
        let sc: Scenario = serde_json::from_value(v.clone()).unwrap();
        let t = Instant::now();
        let ok = run_scenario(&sc);
        let mut evs = trace::take();
        annotate(&mut evs);
        trace::append_ndjson(&mut out, &evs).unwrap();
        let count = |name: &str| evs.iter().filter(|e| e["ev"] == name).count();
        let modes: Vec<usize> = MODES.iter().map(|m| evs.iter().filter(|e| e["ev"] == "ReqStart" && e["mode"] == *m).count()).collect();
        let m = json!({"id": sc.id, "first_line": line, "last_line": line + evs.len() - 1, "events": evs.len(),
                       "requests": count("ReqStart"), "lines": count("Line"), "modes": modes,
                       "try_err": evs.iter().filter(|e| e["ev"] == "TryEnd" && e["ok"] == 0).count(),
                       "no_sink": evs.iter().filter(|e| e["ev"] == "SinkEnd" && e["ok"] == 0).count(),
                       "never_written": evs.iter().filter(|e| (e["ev"] == "DropStart" || e["ev"] == "TryStart") && e["r"] == 0).count(),
                       "wall_ms": t.elapsed().as_millis() as u64, "completed": ok, "scenario": v});
        line += evs.len();
        serde_json::to_writer(&mut meta, &m).unwrap();
        meta.write_all(b"\n").unwrap();
        if !ok {
            // the global is still attached (or its lock poisoned): later scenarios cannot run here
            break;
        }
    }
    out.flush().unwrap();
    meta.flush().unwrap();
    std::process::exit(0);
}

// ------------------------------------------------------------------------------------------
// R: sequential replay of ServiceReplay.tla behaviours
// ------------------------------------------------------------------------------------------

fn seq_one(b: &Value, seed: u64) -> (Value, bool) {
    let id = b["id"].as_u64().unwrap_or(0);
    let mut rng = util::rng(seed ^ id.wrapping_mul(0x9E37_79B9_7F4A_7C15));
    trace::set_epoch(1_000_000 + id);
    trace::ev(json!({"ev": "Reset", "cap": 64, "scenario": id as i64}));
    let lines = OutLog::default();
    let (q, h) = build_queue(64, [1u64, 200, 59_000_000][rng.random_range(0..3)], [0usize, 0, 5, 40][rng.random_range(0..4)],
                             format!("svcs-{id}"), lines.clone());
    let qc = q.clone();
    let mut qh = Some((q, h));
    let mut handle: Option<AttachHandle> = None;
    let mut open: HashMap<u64, OpenReq> = HashMap::new();
    let mut jobs: HashMap<u64, SubJob> = HashMap::new();
    let mut mism: Vec<Value> = Vec::new();
    let mut alive = true;
    let steps = b["steps"].as_array().unwrap();
    for (i, st) in steps.iter().enumerate() {
        let op = st["op"].as_str().unwrap();
        let e = st["e"].as_u64().unwrap_or(0);
        let exp_ok = st["ok"].as_bool().unwrap_or(true);
        let plan = |mode: &'static str, rng: &mut rand_chacha::ChaCha8Rng| ReqPlan {
            p: 1,
            e,
            mode,
            op: OPS[rng.random_range(0..OPS.len())],
            by: st["by"].as_u64().unwrap_or(1),
            d: st["d"].as_u64().unwrap_or(1) * [1u64, 250, 1_000_000][rng.random_range(0..3)],
            sub_by: 0,
            sub_d: 0,
            sub_delay_us: 0,
            owner_delay_us: 0,
        };
        match op {
            "Attach" => {
                trace::evi("AttachStart", &[]);
                match util::catch(|| ServiceMetrics::attach(qh.take().unwrap())) {
                    Ok(hd) => {
                        trace::evi("AttachEnd", &[("ok", 1)]);
                        handle = Some(hd);
                    }
                    Err(m) => {
                        trace::ev(json!({"ev": "AttachEnd", "ok": 0, "what": m}));
                        mism.push(json!({"step": i, "op": op, "what": "attach panicked"}));
                        alive = false;
                        break;
                    }
                }
            }
            "Detach" => {
                if !watched_detach(handle.take().unwrap()) {
                    mism.push(json!({"step": i, "op": op, "what": "the attach handle drop did not return"}));
                    alive = false;
                    break;
                }
            }
            "Flush" => {
                if !do_flush(&qc, st["f"].as_i64().unwrap()) {
                    mism.push(json!({"step": i, "op": op, "what": "flush did not complete within 10 s"}));
                }
            }
            "Try" => {
                let rp = plan("try", &mut rng);
                match util::catch(|| try_request(&rp)) {
                    Ok(ok) if ok == exp_ok => {}
                    Ok(ok) => mism.push(json!({"step": i, "op": op, "e": e, "what": "result of try_append", "expected_ok": exp_ok, "got_ok": ok})),
                    Err(m) => mism.push(json!({"step": i, "op": op, "e": e, "what": format!("panic: {m}")})),
                }
            }
            "Open" => {
                let mode: &'static str = MODES.iter().copied().find(|m| *m == st["mode"].as_str().unwrap()).unwrap();
                let rp = plan(mode, &mut rng);
                match util::catch(|| open_request(&rp)) {
                    Ok((o, j)) => {
                        if o.is_some() != exp_ok {
                            mism.push(json!({"step": i, "op": op, "e": e, "what": "result of try_sink", "expected_some": exp_ok, "got_some": o.is_some()}));
                        }
                        if let Some(o) = o {
                            open.insert(e, o);
                        }
                        if let Some(j) = j {
                            jobs.insert(e, j);
                        }
                    }
                    Err(m) => mism.push(json!({"step": i, "op": op, "e": e, "what": format!("panic: {m}")})),
                }
            }
            "ODrop" => {
                if let Some(o) = open.remove(&e) {
                    if let Err(m) = util::catch(|| drop_owner(o)) {
                        mism.push(json!({"step": i, "op": op, "e": e, "what": format!("panic: {m}")}));
                    }
                }
            }
            "GDrop" => {
                if let Some(mut j) = jobs.remove(&e) {
                    j.by = st["by"].as_u64().unwrap_or(0);
                    j.d = st["d"].as_u64().unwrap_or(0) * [1u64, 7, 2000][rng.random_range(0..3)];
                    // half of the time from another thread
                    if rng.random::<bool>() {
                        let _ = std::thread::spawn(move || run_sub(j)).join();
                    } else {
                        run_sub(j);
                    }
                }
            }
            other => {
                mism.push(json!({"step": i, "what": format!("unknown op {other}")}));
            }
        }
        // after a completed flush / handle drop the output is exactly what TLC computed
        if let Some(exp) = st.get("out").and_then(|o| o.as_array()) {
            let got: Vec<Value> = lines.0.lock().unwrap().clone();
            let proj = |l: &Value| -> Value {
                if l["ev"] == "Line" { json!([l["e"], l["c"], l["h"], l["sub"], l["ts"]]) } else { json!(["bad", l["why"]]) }
            };
            let got_p: Vec<Value> = got.iter().map(proj).collect();
            let exp_p: Vec<Value> = exp.iter().map(|l| json!([l["e"], l["c"], l["h"], l["sub"], l["ts"]])).collect();
            if got_p != exp_p {
                mism.push(json!({"step": i, "op": op, "what": "output [request, Items, Hits, SubItems, timestamp] after the operation completed",
                                 "expected": exp_p, "got": got_p}));
            }
        }
        if mism.len() > 4 {
            break;
        }
    }
    // clean up: nothing may stay attached or open
    for (_, j) in jobs.drain() {
        run_sub(j);
    }
    for (_, o) in open.drain() {
        let _ = util::catch(|| drop_owner(o));
    }
    if let Some(hd) = handle.take() {
        if alive && !watched_detach(hd) {
            alive = false;
        }
    }
    drop(qh);
    drop(qc);
    if alive {
        trace::evi("Quiesce", &[]);
    }
    (json!({"id": id, "mismatches": mism, "steps": steps.len()}), alive)
}

fn cmd_seq(a: &HashMap<String, String>) {
    std::panic::set_hook(Box::new(|_| {}));
    sched::controller().free_run();
    let beh = util::read_ndjson(util::arg_str(a, "behaviours", ""));
    let seed = util::arg_u64(a, "seed", 1);
    let mut out = std::io::BufWriter::new(std::fs::File::create(util::arg_str(a, "out", "")).unwrap());
    let mut meta = std::io::BufWriter::new(std::fs::File::create(util::arg_str(a, "meta", "")).unwrap());
    let mut res = std::io::BufWriter::new(std::fs::File::create(util::arg_str(a, "results", "")).unwrap());
    let mut line = 1usize;
    for b in &beh {
        let (r, alive) = seq_one(b, seed);
        let mut evs = trace::take();
        annotate(&mut evs);
        trace::append_ndjson(&mut out, &evs).unwrap();
        let m = json!({"id": b["id"], "first_line": line, "last_line": line + evs.len() - 1, "events": evs.len(), "scenario": b});
        line += evs.len();
        serde_json::to_writer(&mut meta, &m).unwrap();
        meta.write_all(b"\n").unwrap();
        serde_json::to_writer(&mut res, &r).unwrap();
        res.write_all(b"\n").unwrap();
        if !alive {
            break;
        }
    }
    out.flush().unwrap();
    meta.flush().unwrap();
    res.flush().unwrap();
    std::process::exit(0);
}

fn main() {
    let (cmd, a) = util::args();
    match cmd.as_str() {
        "run" => cmd_run(&a),
        "seq" => cmd_seq(&a),
        _ => {
            eprintln!("usage: svc run|seq ...");
            std::process::exit(2);
        }
    }
}
