SPECIFICATION TSpec
CONSTRAINT Track
INVARIANT AbsInv
POSTCONDITION Accepted
CHECK_DEADLOCK FALSE
