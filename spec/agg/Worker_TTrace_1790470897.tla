---- MODULE Worker_TTrace_1790470897 ----
EXTENDS Sequences, TLCExt, Toolbox, Worker, Naturals, TLC, Worker_TEConstants

_expression ==
    LET Worker_TEExpression == INSTANCE Worker_TEExpression
    IN Worker_TEExpression!expression
----

_trace ==
    LET Worker_TETrace == INSTANCE Worker_TETrace
    IN Worker_TETrace!trace
----

_prop ==
    ~(([]<>(
            acc = (<<>>)
            /\
            ppc = (<<"dropped", "dropped">>)
            /\
            hist = ([started |-> {11, 21}, ended |-> {11, 21}, mseq |-> <<21, 11>>, cut |-> 2, emitted |-> {11, 21}, need |-> <<{11, 21}>>, fdone |-> {1}, batchK |-> {}])
            /\
            why = (<<"timer", 0>>)
            /\
            wpc = ("recv")
            /\
            chan = (<<>>)
            /\
            acked = ({1})
            /\
            pn = (<<1, 1>>)
    ))/\([]<>(
            acc = (<<>>)
            /\
            ppc = (<<"dropped", "dropped">>)
            /\
            hist = ([started |-> {11, 21}, ended |-> {11, 21}, mseq |-> <<21, 11>>, cut |-> 2, emitted |-> {11, 21}, need |-> <<{11, 21}>>, fdone |-> {1}, batchK |-> {}])
            /\
            why = (<<"timer", 0>>)
            /\
            wpc = ("flush")
            /\
            chan = (<<>>)
            /\
            acked = ({1})
            /\
            pn = (<<1, 1>>)
    )))
----

_init ==
    /\ why = _TETrace[1].why
    /\ ppc = _TETrace[1].ppc
    /\ pn = _TETrace[1].pn
    /\ hist = _TETrace[1].hist
    /\ chan = _TETrace[1].chan
    /\ acc = _TETrace[1].acc
    /\ acked = _TETrace[1].acked
    /\ wpc = _TETrace[1].wpc
----

_next ==
    /\ \E i,j \in DOMAIN _TETrace:
        /\ \/ /\ j = i + 1
              /\ i = TLCGet("level")
           \/ /\ i = _TTraceLassoEnd
              /\ j = _TTraceLassoStart
        /\ why  = _TETrace[i].why
        /\ why' = _TETrace[j].why
        /\ ppc  = _TETrace[i].ppc
        /\ ppc' = _TETrace[j].ppc
        /\ pn  = _TETrace[i].pn
        /\ pn' = _TETrace[j].pn
        /\ hist  = _TETrace[i].hist
        /\ hist' = _TETrace[j].hist
        /\ chan  = _TETrace[i].chan
        /\ chan' = _TETrace[j].chan
        /\ acc  = _TETrace[i].acc
        /\ acc' = _TETrace[j].acc
        /\ acked  = _TETrace[i].acked
        /\ acked' = _TETrace[j].acked
        /\ wpc  = _TETrace[i].wpc
        /\ wpc' = _TETrace[j].wpc

\* Uncomment the ASSUME below to write the states of the error trace
\* to the given file in Json format. Note that you can pass any tuple
\* to `JsonSerialize`. For example, a sub-sequence of _TETrace.
    \* ASSUME
    \*     LET J == INSTANCE Json
    \*         IN J!JsonSerialize("Worker_TTrace_1790470897.json", _TETrace)


_view ==
    <<why, ppc, pn, hist, chan, acc, acked, wpc, IF TLCGet("level") = _TTraceLassoEnd + 1 THEN _TTraceLassoStart ELSE TLCGet("level")>>
=============================================================================

 Note that you can extract this module `Worker_TEExpression`
  to a dedicated file to reuse `expression` (the module in the 
  dedicated `Worker_TEExpression.tla` file takes precedence 
  over the module `Worker_TEExpression` below).

---- MODULE Worker_TEExpression ----
EXTENDS Sequences, TLCExt, Toolbox, Worker, Naturals, TLC, Worker_TEConstants

expression == 
    [
        \* To hide variables of the `Worker` spec from the error trace,
        \* remove the variables below.  The trace will be written in the order
        \* of the fields of this record.
        why |-> why
        ,ppc |-> ppc
        ,pn |-> pn
        ,hist |-> hist
        ,chan |-> chan
        ,acc |-> acc
        ,acked |-> acked
        ,wpc |-> wpc
        
        \* Put additional constant-, state-, and action-level expressions here:
        \* ,_stateNumber |-> _TEPosition
        \* ,_whyUnchanged |-> why = why'
        
        \* Format the `why` variable as Json value.
        \* ,_whyJson |->
        \*     LET J == INSTANCE Json
        \*     IN J!ToJson(why)
        
        \* Lastly, you may build expressions over arbitrary sets of states by
        \* leveraging the _TETrace operator.  For example, this is how to
        \* count the number of times a spec variable changed up to the current
        \* state in the trace.
        \* ,_whyModCount |->
        \*     LET F[s \in DOMAIN _TETrace] ==
        \*         IF s = 1 THEN 0
        \*         ELSE IF _TETrace[s].why # _TETrace[s-1].why
        \*             THEN 1 + F[s-1] ELSE F[s-1]
        \*     IN F[_TEPosition - 1]
    ]

=============================================================================



Parsing and semantic processing can take forever if the trace below is long.
 In this case, it is advised to uncomment the module below to deserialize the
 trace from a generated binary file.

\*
\*---- MODULE Worker_TETrace ----
\*EXTENDS IOUtils, Worker, TLC, Worker_TEConstants
\*
\*trace == IODeserialize("Worker_TTrace_1790470897.bin", TRUE)
\*
\*=============================================================================
\*

---- MODULE Worker_TETrace ----
EXTENDS Worker, TLC, Worker_TEConstants

trace == 
    <<
    ([acc |-> <<>>,ppc |-> <<"idle", "idle">>,hist |-> [started |-> {}, ended |-> {}, mseq |-> <<>>, cut |-> 0, emitted |-> {}, need |-> <<>>, fdone |-> {}, batchK |-> {}],why |-> <<"timer", 0>>,wpc |-> "recv",chan |-> <<>>,acked |-> {},pn |-> <<0, 0>>]),
    ([acc |-> <<>>,ppc |-> <<"idle", "send">>,hist |-> [started |-> {21}, ended |-> {}, mseq |-> <<>>, cut |-> 0, emitted |-> {}, need |-> <<>>, fdone |-> {}, batchK |-> {}],why |-> <<"timer", 0>>,wpc |-> "recv",chan |-> <<>>,acked |-> {},pn |-> <<0, 0>>]),
    ([acc |-> <<>>,ppc |-> <<"send", "send">>,hist |-> [started |-> {11, 21}, ended |-> {}, mseq |-> <<>>, cut |-> 0, emitted |-> {}, need |-> <<>>, fdone |-> {}, batchK |-> {}],why |-> <<"timer", 0>>,wpc |-> "recv",chan |-> <<>>,acked |-> {},pn |-> <<0, 0>>]),
    ([acc |-> <<>>,ppc |-> <<"send", "sent">>,hist |-> [started |-> {11, 21}, ended |-> {}, mseq |-> <<>>, cut |-> 0, emitted |-> {}, need |-> <<>>, fdone |-> {}, batchK |-> {}],why |-> <<"timer", 0>>,wpc |-> "recv",chan |-> <<<<"e", 21>>>>,acked |-> {},pn |-> <<0, 0>>]),
    ([acc |-> (2 :> [ids |-> {21}, obs |-> <<21>>, last |-> 21]),ppc |-> <<"send", "sent">>,hist |-> [started |-> {11, 21}, ended |-> {}, mseq |-> <<21>>, cut |-> 0, emitted |-> {}, need |-> <<>>, fdone |-> {}, batchK |-> {}],why |-> <<"timer", 0>>,wpc |-> "recv",chan |-> <<>>,acked |-> {},pn |-> <<0, 0>>]),
    ([acc |-> (2 :> [ids |-> {21}, obs |-> <<21>>, last |-> 21]),ppc |-> <<"sent", "sent">>,hist |-> [started |-> {11, 21}, ended |-> {}, mseq |-> <<21>>, cut |-> 0, emitted |-> {}, need |-> <<>>, fdone |-> {}, batchK |-> {}],why |-> <<"timer", 0>>,wpc |-> "recv",chan |-> <<<<"e", 11>>>>,acked |-> {},pn |-> <<0, 0>>]),
    ([acc |-> (2 :> [ids |-> {11, 21}, obs |-> <<21, 11>>, last |-> 11]),ppc |-> <<"sent", "sent">>,hist |-> [started |-> {11, 21}, ended |-> {}, mseq |-> <<21, 11>>, cut |-> 0, emitted |-> {}, need |-> <<>>, fdone |-> {}, batchK |-> {}],why |-> <<"timer", 0>>,wpc |-> "recv",chan |-> <<>>,acked |-> {},pn |-> <<0, 0>>]),
    ([acc |-> (2 :> [ids |-> {11, 21}, obs |-> <<21, 11>>, last |-> 11]),ppc |-> <<"sent", "idle">>,hist |-> [started |-> {11, 21}, ended |-> {21}, mseq |-> <<21, 11>>, cut |-> 0, emitted |-> {}, need |-> <<>>, fdone |-> {}, batchK |-> {}],why |-> <<"timer", 0>>,wpc |-> "recv",chan |-> <<>>,acked |-> {},pn |-> <<0, 1>>]),
    ([acc |-> (2 :> [ids |-> {11, 21}, obs |-> <<21, 11>>, last |-> 11]),ppc |-> <<"idle", "idle">>,hist |-> [started |-> {11, 21}, ended |-> {11, 21}, mseq |-> <<21, 11>>, cut |-> 0, emitted |-> {}, need |-> <<>>, fdone |-> {}, batchK |-> {}],why |-> <<"timer", 0>>,wpc |-> "recv",chan |-> <<>>,acked |-> {},pn |-> <<1, 1>>]),
    ([acc |-> (2 :> [ids |-> {11, 21}, obs |-> <<21, 11>>, last |-> 11]),ppc |-> <<"idle", "dropped">>,hist |-> [started |-> {11, 21}, ended |-> {11, 21}, mseq |-> <<21, 11>>, cut |-> 0, emitted |-> {}, need |-> <<>>, fdone |-> {}, batchK |-> {}],why |-> <<"timer", 0>>,wpc |-> "recv",chan |-> <<>>,acked |-> {},pn |-> <<1, 1>>]),
    ([acc |-> (2 :> [ids |-> {11, 21}, obs |-> <<21, 11>>, last |-> 11]),ppc |-> <<"await", "dropped">>,hist |-> [started |-> {11, 21}, ended |-> {11, 21}, mseq |-> <<21, 11>>, cut |-> 0, emitted |-> {}, need |-> <<{11, 21}>>, fdone |-> {}, batchK |-> {}],why |-> <<"timer", 0>>,wpc |-> "recv",chan |-> <<<<"f", 1>>>>,acked |-> {},pn |-> <<1, 1>>]),
    ([acc |-> (2 :> [ids |-> {11, 21}, obs |-> <<21, 11>>, last |-> 11]),ppc |-> <<"await", "dropped">>,hist |-> [started |-> {11, 21}, ended |-> {11, 21}, mseq |-> <<21, 11>>, cut |-> 0, emitted |-> {}, need |-> <<{11, 21}>>, fdone |-> {}, batchK |-> {}],why |-> <<"ack", 1>>,wpc |-> "flush",chan |-> <<>>,acked |-> {},pn |-> <<1, 1>>]),
    ([acc |-> (2 :> [ids |-> {11, 21}, obs |-> <<21, 11>>, last |-> 11]),ppc |-> <<"await", "dropped">>,hist |-> [started |-> {11, 21}, ended |-> {11, 21}, mseq |-> <<21, 11>>, cut |-> 0, emitted |-> {}, need |-> <<{11, 21}>>, fdone |-> {}, batchK |-> {}],why |-> <<"ack", 1>>,wpc |-> "emit",chan |-> <<>>,acked |-> {},pn |-> <<1, 1>>]),
    ([acc |-> <<>>,ppc |-> <<"await", "dropped">>,hist |-> [started |-> {11, 21}, ended |-> {11, 21}, mseq |-> <<21, 11>>, cut |-> 0, emitted |-> {11, 21}, need |-> <<{11, 21}>>, fdone |-> {}, batchK |-> {2}],why |-> <<"ack", 1>>,wpc |-> "emit",chan |-> <<>>,acked |-> {},pn |-> <<1, 1>>]),
    ([acc |-> <<>>,ppc |-> <<"await", "dropped">>,hist |-> [started |-> {11, 21}, ended |-> {11, 21}, mseq |-> <<21, 11>>, cut |-> 2, emitted |-> {11, 21}, need |-> <<{11, 21}>>, fdone |-> {}, batchK |-> {}],why |-> <<"ack", 1>>,wpc |-> "after",chan |-> <<>>,acked |-> {},pn |-> <<1, 1>>]),
    ([acc |-> <<>>,ppc |-> <<"await", "dropped">>,hist |-> [started |-> {11, 21}, ended |-> {11, 21}, mseq |-> <<21, 11>>, cut |-> 2, emitted |-> {11, 21}, need |-> <<{11, 21}>>, fdone |-> {}, batchK |-> {}],why |-> <<"timer", 0>>,wpc |-> "recv",chan |-> <<>>,acked |-> {1},pn |-> <<1, 1>>]),
    ([acc |-> <<>>,ppc |-> <<"await", "dropped">>,hist |-> [started |-> {11, 21}, ended |-> {11, 21}, mseq |-> <<21, 11>>, cut |-> 2, emitted |-> {11, 21}, need |-> <<{11, 21}>>, fdone |-> {}, batchK |-> {}],why |-> <<"timer", 0>>,wpc |-> "flush",chan |-> <<>>,acked |-> {1},pn |-> <<1, 1>>]),
    ([acc |-> <<>>,ppc |-> <<"idle", "dropped">>,hist |-> [started |-> {11, 21}, ended |-> {11, 21}, mseq |-> <<21, 11>>, cut |-> 2, emitted |-> {11, 21}, need |-> <<{11, 21}>>, fdone |-> {1}, batchK |-> {}],why |-> <<"timer", 0>>,wpc |-> "flush",chan |-> <<>>,acked |-> {1},pn |-> <<1, 1>>]),
    ([acc |-> <<>>,ppc |-> <<"dropped", "dropped">>,hist |-> [started |-> {11, 21}, ended |-> {11, 21}, mseq |-> <<21, 11>>, cut |-> 2, emitted |-> {11, 21}, need |-> <<{11, 21}>>, fdone |-> {1}, batchK |-> {}],why |-> <<"timer", 0>>,wpc |-> "flush",chan |-> <<>>,acked |-> {1},pn |-> <<1, 1>>]),
    ([acc |-> <<>>,ppc |-> <<"dropped", "dropped">>,hist |-> [started |-> {11, 21}, ended |-> {11, 21}, mseq |-> <<21, 11>>, cut |-> 2, emitted |-> {11, 21}, need |-> <<{11, 21}>>, fdone |-> {1}, batchK |-> {}],why |-> <<"timer", 0>>,wpc |-> "emit",chan |-> <<>>,acked |-> {1},pn |-> <<1, 1>>]),
    ([acc |-> <<>>,ppc |-> <<"dropped", "dropped">>,hist |-> [started |-> {11, 21}, ended |-> {11, 21}, mseq |-> <<21, 11>>, cut |-> 2, emitted |-> {11, 21}, need |-> <<{11, 21}>>, fdone |-> {1}, batchK |-> {}],why |-> <<"timer", 0>>,wpc |-> "after",chan |-> <<>>,acked |-> {1},pn |-> <<1, 1>>]),
    ([acc |-> <<>>,ppc |-> <<"dropped", "dropped">>,hist |-> [started |-> {11, 21}, ended |-> {11, 21}, mseq |-> <<21, 11>>, cut |-> 2, emitted |-> {11, 21}, need |-> <<{11, 21}>>, fdone |-> {1}, batchK |-> {}],why |-> <<"timer", 0>>,wpc |-> "recv",chan |-> <<>>,acked |-> {1},pn |-> <<1, 1>>])
    >>
----


=============================================================================

---- MODULE Worker_TEConstants ----
EXTENDS Worker

CONSTANTS _TTraceLassoStart, _TTraceLassoEnd

=============================================================================

---- CONFIG Worker_TTrace_1790470897 ----
CONSTANTS
    Producers = { 1 , 2 }
    NSend = 1
    NK = 2
    Flushing = { 1 }
    BreakOnDisconnect = FALSE
_TTraceLassoStart = 19
_TTraceLassoEnd = 22

PROPERTY
    _prop

CHECK_DEADLOCK
    \* CHECK_DEADLOCK off because of PROPERTY or INVARIANT above.
    FALSE

INIT
    _init

NEXT
    _next

VIEW
    _view

CONSTANT
    _TETrace <- _trace

ALIAS
    _expression
=============================================================================
\* Generated on Sun Sep 27 01:01:39 UTC 2026