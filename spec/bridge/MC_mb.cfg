CONSTANTS
  Updaters = {1, 2}
  NOps = 3
  NReadouts = 1
  CKeys = {"c1"}
  GKeys = {"g1"}
  HKeys = {"h1"}
  Buckets = {1}
  IncVals = {1, 2}
  RecCounts = {1}
  ReaderMode = "swap"
SPECIFICATION Spec
INVARIANT BridgeInv
CHECK_DEADLOCK FALSE
