"""C12 - sampling is consistent and unbiased.

TLC decides (spec/sample, exact rationals): SamplingGrid - RateToNOK for every rate p/q in lowest terms up to
QMax plus edge rates that are exact in f32, the emit/skip table for dyadic rates, the symbolic powers of two
with the saturation at 2^-63; Sampling - the four congress invariants (rates in (0,1]; all 1 when the previous
interval's total <= target; else sum(avg*rate) <= target and avg_g <= avg_h => rate_g >= rate_h) for every
volume history in the box; SamplingReplay - every volume history up to a depth with exact averages and rates.

Conformance R (harness/src/bin/samp.rs): (i) FixedFractionSample under a scripted RngCore at a recording
SampledFormat; (ii) verif_rate_to_n_alpha and the Counts of real EMF output under a scripted RngCore;
(iii) TLC's histories fed to a real CongressSample (verif_end_interval / verif_rates), every format call
scripted and checked as in (i).
"""
import os, sys, json, struct, random, math
from fractions import Fraction as F

sys.path.insert(0, os.path.join(os.path.dirname(os.path.abspath(__file__)), "..", "lib"))
import vlib
from vlib import log

MAX_VIOLATION_FILES = 40


def report(chk, what, replay_obj, key=None):
    """chk.violation, but a broken tree must not leave tens of thousands of replay files behind"""
    if len(chk.violations) < MAX_VIOLATION_FILES:
        chk.violation(what, replay_obj, key)
    else:
        chk.extra["violations_not_recorded"] = chk.extra.get("violations_not_recorded", 0) + 1


SPECD = os.path.join(vlib.SPEC, "sample")
U64MAX = (1 << 64) - 1
REL_SPLIT = F(1, 10 ** 6)     # real (n, alpha) against TLC's rationals
REL_CONGRESS = F(1, 10 ** 4)  # real f32 rates / averages against TLC's rationals, and slack of the invariants


def f32_bits(x):
    return struct.unpack("<I", struct.pack("<f", x))[0]


def bits_f32(b):
    return struct.unpack("<f", struct.pack("<I", b))[0]


def bits_f64(b):
    return struct.unpack("<d", struct.pack("<Q", b))[0]


def to_f32(fr):
    """nearest f32 (as python float) of a rational"""
    return bits_f32(f32_bits(float(fr)))


def random_rate(rng):
    """a random f32 in (0, 1]: any bit pattern, or (half of the time) one of the upper 40 binades"""
    if rng.random() < 0.5:
        return bits_f32(rng.randrange(0x00000001, 0x3F800001))
    return bits_f32(rng.randrange((127 - 40) << 23, 0x3F800001))


def next_f32(x, up):
    b = f32_bits(x)
    return bits_f32(b + 1 if up else b - 1)


# --------------------------------------------------------------------------------------------
def run_grid_model(chk, tier):
    cfg = "MC_grid_quick.cfg" if tier == "quick" else "MC_grid.cfg"
    r = vlib.model_check(SPECD, "SamplingGrid", cfg, workers=1, timeout=900)
    chk.add_model("SamplingGrid/" + cfg, r)
    rows = vlib.replay_lines(r)
    rates = [x for x in rows if x["kind"] == "rate"]
    pow2 = [x for x in rows if x["kind"] == "pow2"]
    if not rates or len(pow2) < 100:
        raise vlib.ToolError("SamplingGrid printed no table")
    chk.extra["grid_rates"] = len(rates)
    chk.extra["grid_pow2"] = len(pow2)
    return rates, pow2


# --------------------------------------------------------------------------------------------
# (i) the decision
def fixed_cases(rates, rng, n_random):
    cases = []
    for row in rates:
        rate = to_f32(F(row["p"], row["q"]))
        words = []
        tlc = {}
        if row["decide"]:
            assert F(rate) == F(row["p"], row["q"])
            for d in row["decide"]:
                w = d["k"] << 26                      # draw = (w >> 8) / 2^24 = k / 64
                words.append(w)
                tlc[w] = d["emit"]
        k = int(F(rate) * (1 << 24))                  # largest 24-bit draw <= rate
        for kk in (k - 1, k, k + 1, 0, (1 << 24) - 1):
            if 0 <= kk < (1 << 24):
                words.append((kk << 8) | rng.randrange(256))
        cases.append({"rate": f32_bits(rate), "words": words, "tlc": tlc, "what": f"rate {row['p']}/{row['q']}"})
    extra = [1.0, next_f32(1.0, False), 0.5, next_f32(0.5, True), next_f32(0.5, False), 2.0 ** -24, 2.0 ** -25,
             3 * 2.0 ** -24, 2.0 ** -126, 2.0 ** -149, 1.5e-38]
    for _ in range(n_random):
        extra.append(random_rate(rng))
    for rate in extra:
        k = int(F(rate) * (1 << 24))
        words = [(kk << 8) | rng.randrange(256) for kk in (k - 1, k, k + 1, 0, 1, (1 << 24) - 1) if 0 <= kk < (1 << 24)]
        cases.append({"rate": f32_bits(rate), "words": words, "tlc": {}, "what": f"rate {rate!r}"})
    return cases


def judge_decision(rate, draw, used, calls, what):
    """the first sentence of C12 for one format call: rate = the rate computed for the entry (python float of the
    f32), draw = f32 draw or None when no draw was taken, calls = what reached the recording SampledFormat"""
    if len(calls) > 1:
        return f"{what}: one entry reached the inner format {len(calls)} times"
    if calls and calls[0][0] == "UNSAMPLED":
        return f"{what}: the sampler called format() instead of format_with_sample_rate()"
    emitted = len(calls) == 1
    if rate == 1.0:
        expect = True
    elif not used:
        return None if not emitted else f"{what}: entry emitted at rate {rate!r} without taking a draw"
    else:
        expect = draw <= rate                        # Decide(draw, rate): both are f32 values held exactly in python floats
    if emitted != expect:
        return (f"{what}: draw {draw!r} against rate {rate!r}: entry was {'emitted' if emitted else 'skipped'}, "
                f"must be {'emitted' if expect else 'skipped'} (emit iff draw <= rate)")
    if emitted and bits_f32(calls[0][1]) != rate:
        return f"{what}: rate {rate!r} was computed for the entry but {bits_f32(calls[0][1])!r} was passed on"
    return None


def run_fixed(chk, rates, tier):
    cases = fixed_cases(rates, chk.rng, 200 if tier == "quick" else 5000)
    for i, c in enumerate(cases):
        c["id"] = i
    cp, op = os.path.join(chk.dir, "fixed-cases.ndjson"), os.path.join(chk.dir, "fixed-out.ndjson")
    vlib.write_ndjson(cp, [{"id": c["id"], "rate": c["rate"], "words": c["words"]} for c in cases])
    vlib.run_bin("samp", ["fixed", "--cases", cp, "--out", op])
    outs = {o["id"]: o for o in vlib.read_ndjson(op)}
    n_eq = n_rows = 0
    for c in cases:
        o = outs[c["id"]]
        rate = bits_f32(c["rate"])
        viol = None
        if o.get("panic"):
            viol = f"FixedFractionSample panicked at rate {rate!r}: {o['panic']}"
        else:
            for row in o["rows"]:
                draw = bits_f32(row["draw"])
                n_rows += 1
                n_eq += F(draw) == F(rate)
                viol = judge_decision(rate, draw, True, row["calls"], f"FixedFractionSample, {c['what']}")
                if viol is None and row["word"] in c["tlc"]:
                    emitted = len(row["calls"]) == 1
                    if emitted != c["tlc"][row["word"]]:
                        raise vlib.ToolError(f"concretisation of TLC's decide row is off: {c['what']} word {row['word']}")
                if viol:
                    break
        chk.evaluations += 1
        chk.nontrivial.add(("fixed", c["rate"]))
        if viol:
            report(chk, viol, {"kind": "fixed", "case": c, "observed": o}, key="C12:decide")
        else:
            chk.traces += 1
    chk.extra["decision_rows"] = n_rows
    chk.extra["decision_rows_draw_equals_rate"] = n_eq
    chk.sample({"fixed_fraction_case": {k: cases[3][k] for k in ("rate", "words", "what")}})


# --------------------------------------------------------------------------------------------
# (ii) the weight
def word_for_draw(d):
    """64-bit word whose f64 draw ((w >> 11) / 2^53) is the largest one <= d"""
    return min(int(d * (1 << 53)), (1 << 53) - 1) << 11


def emf_cases(rates, pow2, rng, n_random):
    cases = []
    for row in rates:
        rate = to_f32(F(row["p"], row["q"]))
        ws = {}
        for w in row["weights"]:
            ws[word_for_draw(F(*w["draw"]))] = w["w"]
        cases.append({"rate": f32_bits(rate), "words": sorted(ws), "tlc": {"kind": "rate", "row": row, "w": {str(k): v for k, v in ws.items()}},
                      "what": f"rate {row['p']}/{row['q']}"})
    for row in pow2:
        rate = 2.0 ** -row["k"]
        words = [word_for_draw(F(x)) for x in (F(0), F(1, 3), F(1, 2), F(1023, 1024))]
        cases.append({"rate": f32_bits(rate), "words": words, "tlc": {"kind": "pow2", "row": row}, "what": f"rate 2^-{row['k']}"})
    lim = 2.0 ** -63
    extra = [next_f32(1.0, False), next_f32(lim, True), next_f32(lim, False), next_f32(2.0 ** -53, True),
             next_f32(2.0 ** -53, False), 1e-30, 1.5e-38, 2.0 ** -126 * 0.75]
    for _ in range(n_random):
        extra.append(random_rate(rng))
    for rate in extra:
        words = [word_for_draw(F(x)) for x in (F(0), F(1, 4), F(1, 2), F(3, 4), F(1023, 1024))]
        cases.append({"rate": f32_bits(rate), "words": words, "tlc": {"kind": "free"}, "what": f"rate {rate!r}"})
    return cases


def weight_of(counts, occ):
    """the single integer weight behind all Counts of a record, or an error text"""
    w = None
    for name, occs in occ.items():
        if name not in counts:
            return None, f"metric {name} missing from the EMF record"
        if counts[name] == "plain":
            return None, f"metric {name} was written without Counts although a sample rate was given"
        if len(counts[name]) != len(occs):
            return None, f"metric {name}: {len(counts[name])} counts for {len(occs)} observations"
    w = counts["Scalar"][0]
    for name, occs in occ.items():
        for c, k in zip(counts[name], occs):
            if c != min(k * w, U64MAX):
                return None, (f"counts of one record do not carry a single integer weight: Scalar has {w}, "
                              f"{name} has {c} for {k} occurrence(s)")
    return w, None


def judge_weight(c, o):
    """returns (violation | None, drift | None)"""
    rate = bits_f32(c["rate"])
    R = F(rate)
    inv = 1 / R
    what = f"SampledEmf, {c['what']}"
    if o.get("panic"):
        return f"{what}: panic {o['panic']}", None
    sat = R < F(1, 1 << 63)
    drift = None
    tlc = c["tlc"]
    if tlc["kind"] == "pow2" and tlc["row"]["sat"] != sat:
        raise vlib.ToolError("pow2 row and concrete rate disagree about saturation")
    split = o["split"]
    n_real = alpha_real = None
    if isinstance(split, dict):
        return f"{what}: rate_to_n_alpha panicked: {split['panic']}", None
    if split is not None:
        n_real, alpha_real = split[0], F(bits_f64(split[1]))
        if inv < (1 << 53):
            # unbiased split: n alpha + (n+1)(1 - alpha) = n + 1 - alpha must be 1/rate
            mean = n_real + 1 - alpha_real
            if abs(mean - inv) > REL_SPLIT * inv:
                return (f"{what}: the split (n={n_real}, alpha={float(alpha_real)!r}) has mean weight {float(mean)!r}, "
                        f"1/rate is {float(inv)!r}"), None
            if not (0 <= alpha_real <= 1):
                return f"{what}: alpha {float(alpha_real)!r} is not a probability", None
        if tlc["kind"] == "rate":
            row = tlc["row"]
            exact = F(row["q"], row["p"])
            if abs((n_real + 1 - alpha_real) - exact) > REL_SPLIT * exact and drift is None:
                drift = {"what": c["what"], "model_inverse": [row["q"], row["p"]], "real_n": n_real, "real_alpha": float(alpha_real)}
            if row["exact"] and (n_real != row["n"] or abs(alpha_real - F(*row["alpha"])) > REL_SPLIT):
                drift = drift or {"what": c["what"], "model": [row["n"], row["alpha"]], "real": [n_real, float(alpha_real)]}
    for r in o["rows"]:
        if r.get("error"):
            return f"{what}: {r['error']}", None
        w, err = weight_of(r["counts"], o["occ"])
        if err:
            return f"{what}: {err}", None
        draw = F(bits_f64(r["draw"]))
        if sat:
            if w != U64MAX:
                return f"{what}: rate below 2^-63 must saturate the weight at {U64MAX}, got {w}", None
            continue
        if inv < (1 << 53):
            lo, hi = inv.numerator // inv.denominator, -((-inv.numerator) // inv.denominator)
            if w not in (lo, hi):
                return f"{what}: weight {w} is neither floor nor ceiling of 1/rate = {float(inv)!r}", None
        elif abs(w - inv) > 1 + inv / (1 << 52):
            # 1/rate >= 2^53 is not an integer of f64 any more: within 1 of the f64 value of 1/rate
            return f"{what}: weight {w} is not within 1 (+ f64 rounding) of 1/rate = {float(inv)!r}", None
        if r.get("adj"):
            # draws adjacent to the real alpha: only the model-level split n | n+1 exactly at alpha
            if n_real is not None and inv < (1 << 53):
                exp = n_real if draw < alpha_real else n_real + 1
                if w != exp:
                    drift = drift or {"what": c["what"], "adjacent_draw": float(draw), "alpha": float(alpha_real), "weight": w, "expected": exp}
            continue
        if tlc["kind"] == "rate":
            row = tlc["row"]
            a = F(*row["alpha"])
            eps = REL_SPLIT * F(row["q"], row["p"])
            dist = min(abs(draw - a), abs(draw - a + 1), abs(draw - a - 1)) if not row["exact"] else abs(draw - a)
            if row["exact"] or dist > eps:
                exp = tlc["w"][str(r["word"])]
                if w != exp:
                    return (f"{what}: draw {float(draw)!r} with alpha = {row['alpha'][0]}/{row['alpha'][1]}: weight {w}, "
                            f"must be {exp} (n = {row['n']} below alpha, n+1 from alpha on: mean weight 1/rate)"), None
        elif tlc["kind"] == "pow2":
            k = tlc["row"]["k"]
            if tlc["row"]["floor_or_ceil"] and w != (1 << k):
                return f"{what}: weight {w}, must be exactly 2^{k}", None
        elif n_real is not None and inv < (1 << 53):
            # free rates: the weight follows the real split (the split itself was checked against 1/rate above)
            if abs(draw - alpha_real) > REL_SPLIT * inv:
                exp = n_real if draw < alpha_real else n_real + 1
                if w != exp:
                    return (f"{what}: draw {float(draw)!r} against alpha {float(alpha_real)!r}: weight {w}, must be {exp} "
                            f"(n below alpha, n+1 from alpha on)"), None
    return None, drift


def run_emf(chk, rates, pow2, tier):
    cases = emf_cases(rates, pow2, chk.rng, 200 if tier == "quick" else 5000)
    for i, c in enumerate(cases):
        c["id"] = i
    cp, op = os.path.join(chk.dir, "emf-cases.ndjson"), os.path.join(chk.dir, "emf-out.ndjson")
    vlib.write_ndjson(cp, [{"id": c["id"], "rate": c["rate"], "words": c["words"]} for c in cases])
    vlib.run_bin("samp", ["emf", "--cases", cp, "--out", op])
    outs = {o["id"]: o for o in vlib.read_ndjson(op)}
    nsat = nrows = 0
    for c in cases:
        o = outs[c["id"]]
        viol, drift = judge_weight(c, o)
        chk.evaluations += 1
        chk.nontrivial.add(("emf", c["rate"]))
        nrows += len(o.get("rows", []))
        nsat += F(bits_f32(c["rate"])) < F(1, 1 << 63)
        if viol:
            report(chk, viol, {"kind": "emf", "case": c, "observed": o}, key="C12:weight")
        else:
            chk.traces += 1
            if drift:
                chk.extra["weight_drift"] = chk.extra.get("weight_drift", 0) + 1
                if len(chk.drift) < 20:
                    chk.drift.append(drift)
    chk.extra["emf_records_checked"] = nrows
    chk.extra["emf_rates_below_2^-63"] = nsat
    chk.sample({"emf_case": {k: cases[10][k] for k in ("rate", "words", "what")}})


# --------------------------------------------------------------------------------------------
# (iii) congress
def judge_congress(c, o):
    """returns (violation | None, drift | None)"""
    what = f"CongressSample target {c['target']} volumes {[s['vol'] for s in c['steps']]}"
    if o.get("panic"):
        return f"{what}: panic {o['panic']}", None
    T = c["target"]
    drift = None
    prev_after = None
    for i, (ms, rs) in enumerate(zip(c["steps"], o["steps"])):
        # every format call of the interval
        prev_total = sum(c["steps"][i - 1]["vol"]) if i > 0 else 0
        for g, held_b, is_new, draw_b, used, ninner, fwd_b, ok in rs["calls"]:
            if held_b is None:
                return f"{what}, interval {i + 1}: group g{g} is not tracked after one of its entries was formatted", None
            held = bits_f32(held_b)
            inner = [["UNSAMPLED", 0]] if ninner < 0 else [["g", fwd_b]] * ninner
            v = judge_decision(held, bits_f32(draw_b), used, inner, f"{what}, interval {i + 1}, group g{g}")
            if v:
                return v, None
            if not (held > 0.0 and held <= 1.0):
                return f"{what}, interval {i + 1}: group g{g} is sampled at rate {held!r}, outside (0, 1]", None
            if prev_total <= T and held != 1.0:
                return (f"{what}, interval {i + 1}: the previous interval saw {prev_total} <= target {T} entries but "
                        f"{'new ' if is_new else ''}group g{g} is sampled at rate {held!r} instead of 1"), None
            if prev_after is not None and drift is None:
                m = prev_after[g - 1]
                exp = F(*m["rate"]) if m["present"] else F(1)
                if abs(F(held) - exp) > REL_CONGRESS * exp:
                    drift = {"what": what, "interval": i + 1, "group": g, "held_rate": held, "model_rate": m["rate"]}
        real = {int(g[1:]): (bits_f32(r), bits_f32(a)) for g, (r, a) in rs["after"].items()}
        total = sum(ms["vol"])
        # the invariants of the property, on the real numbers
        for g, (r, a) in real.items():
            if not (r > 0.0 and r <= 1.0):
                return f"{what}: after interval {i + 1} group g{g} has sample rate {r!r}, outside (0, 1]", None
        if total <= T:
            bad = {g: r for g, (r, a) in real.items() if r != 1.0}
            if bad:
                return (f"{what}: interval {i + 1} saw {total} <= target {T} entries but rates are "
                        f"{ {('g%d' % g): r for g, r in bad.items()} } instead of 1"), None
        else:
            budget = sum(F(a) * F(r) for r, a in real.values())
            if budget > T * (1 + REL_CONGRESS):
                return (f"{what}: after interval {i + 1} sum(average x rate) = {float(budget)!r} exceeds the target {T} "
                        f"(averages/rates { {('g%d' % g): (a, r) for g, (r, a) in real.items()} })"), None
            for g, (rg, ag) in real.items():
                for h, (rh, ah) in real.items():
                    if ag <= ah and F(rg) < F(rh) * (1 - REL_CONGRESS):
                        return (f"{what}: after interval {i + 1} group g{g} (average {ag!r}) is rarer than g{h} "
                                f"(average {ah!r}) but is sampled at {rg!r} < {rh!r}"), None
        # against the model
        if drift is None:
            for gi, m in enumerate(ms["after"]):
                g = gi + 1
                if m["present"] != (g in real):
                    drift = {"what": what, "interval": i + 1, "group": g, "model_present": m["present"], "real_present": g in real}
                    break
                if m["present"]:
                    r, a = real[g]
                    er, ea = F(*m["rate"]), F(*m["avg"])
                    if abs(F(r) - er) > REL_CONGRESS * er or abs(F(a) - ea) > REL_CONGRESS * ea:
                        drift = {"what": what, "interval": i + 1, "group": g, "model": [m["rate"], m["avg"]], "real": [r, a]}
                        break
        prev_after = ms["after"]
    return None, drift


def run_congress(chk, tier):
    cfgs = ["MC_creplay_quick.cfg", "MC_creplay_quick2.cfg", "MC_creplay_ttl.cfg"] if tier == "quick" else ["MC_creplay.cfg", "MC_creplay4.cfg", "MC_creplay_ttl.cfg"]
    cases = []
    for cfg in cfgs:
        rr = vlib.tlc(SPECD, "SamplingReplay", cfg, timeout=3000)
        if rr.errors or rr.invariant_violated:
            sys.stdout.write(rr.out[-3000:])
            raise vlib.ToolError(f"SamplingReplay/{cfg} failed: {rr.errors[:2]}")
        chk.add_model("SamplingReplay/" + cfg, rr)
        beh = vlib.replay_lines(rr)
        chk.extra["histories_" + cfg] = len(beh)
        cases += beh
    for i, c in enumerate(cases):
        c["id"] = i
    cp, op = os.path.join(chk.dir, "congress-cases.ndjson"), os.path.join(chk.dir, "congress-out.ndjson")
    vlib.write_ndjson(cp, [{"id": c["id"], "target": c["target"], "steps": [s["vol"] for s in c["steps"]]} for c in cases])
    vlib.run_bin("samp", ["congress", "--cases", cp, "--out", op], timeout=3000)
    outs = {o["id"]: o for o in vlib.read_ndjson(op)}
    above = expired = calls = 0
    for c in cases:
        o = outs[c["id"]]
        viol, drift = judge_congress(c, o)
        chk.evaluations += 1
        chk.nontrivial.add(("congress", c["target"], json.dumps([s["vol"] for s in c["steps"]])))
        above += any(sum(s["vol"]) > c["target"] for s in c["steps"])
        expired += any((not m["present"]) and p["present"] for s0, s1 in zip(c["steps"], c["steps"][1:])
                       for p, m in zip(s0["after"], s1["after"]))
        calls += sum(len(s["calls"]) for s in o.get("steps", []))
        if viol:
            report(chk, viol, {"kind": "congress", "case": c, "observed": o}, key="C12:congress")
        else:
            chk.traces += 1
            if drift:
                chk.extra["congress_drift"] = chk.extra.get("congress_drift", 0) + 1
                if len(chk.drift) < 20:
                    chk.drift.append(drift)
    chk.extra["congress_histories"] = len(cases)
    chk.extra["congress_histories_above_target"] = above
    chk.extra["congress_histories_with_expired_group"] = expired
    chk.extra["congress_format_calls"] = calls
    if cases:
        mid = cases[len(cases) // 3]
        chk.sample({"congress_history": {"target": mid["target"], "volumes": [s["vol"] for s in mid["steps"]],
                                         "model_after_last": mid["steps"][-1]["after"]}})


# --------------------------------------------------------------------------------------------
def run(prop, tier):
    chk = vlib.Check(prop, tier)
    chk.rule = ("evaluations = cases executed on the real code: one FixedFractionSample per rate (several scripted draws), "
                "one SampledEmf per rate (several scripted draws, one EMF record each, plus the (n, alpha) accessor), "
                "one CongressSample per TLC volume history (every format call scripted); distinct_nontrivial = distinct "
                "rates resp. distinct (target, history)")
    chk.assumptions = [
        "rand 0.9 StandardUniform maps a word to f32/f64 as the harness observes by calling the same function on the same word",
        "real (n, alpha) against TLC's rationals: relative 1e-6 on the mean weight n + 1 - alpha (the f32 nearest to p/q is "
        "not p/q); weights for draws closer than 1e-6/rate to alpha are not judged on inexact rates",
        "weight: exactly floor or ceil of 1/rate (exact rational of the f32) when 1/rate < 2^53, within 1 + 2^-52/rate "
        "otherwise (1/rate is then only known to f64 precision), "
        "2^64-1 for rates below 2^-63; every count of the record = min(occurrences * weight, 2^64-1)",
        "congress: real f32 rates / averages against TLC's exact rationals relative 1e-4 (MODEL-DRIFT), the four invariants "
        "re-evaluated on the real numbers with slack 1e-4 (VIOLATION)",
        "every representable f32 rate: rational grid in lowest terms (q <= 64 quick / 128 thorough), f32-exact edge rates, all "
        "powers of two 2^0..2^-149, and seeded random f32 rates - not all 2^30 floats",
        "congress histories: <= 3 groups, <= 4 intervals (11 for the TTL histories), volumes from the sets in MC_c*.cfg; "
        "the moving average is the exact running mean (fewer than 16 samples)",
    ]
    vlib.cargo_build(["samp"])
    rates, pow2 = run_grid_model(chk, tier)
    cfgs = ["MC_congress_quick.cfg"] if tier == "quick" else ["MC_congress.cfg", "MC_congress4.cfg"]
    for cfg in ([] if vlib.SKIP_MC else cfgs):          # self-test only: code-independent model checking skipped
        r = vlib.model_check(SPECD, "Sampling", cfg, timeout=3600)
        chk.add_model("Sampling/" + cfg, r)
    import time
    t = time.time()
    run_fixed(chk, rates, tier)
    log(f"[C12] decision part {time.time() - t:.1f}s"); t = time.time()
    run_emf(chk, rates, pow2, tier)
    log(f"[C12] weight part {time.time() - t:.1f}s"); t = time.time()
    run_congress(chk, tier)
    log(f"[C12] congress part {time.time() - t:.1f}s")
    return chk.finish()


def replay(prop, path):
    with open(path) as f:
        v = json.load(f)
    rp = v["replay"]
    vlib.cargo_build(["samp"])
    d = vlib.rundir(prop + "-replay")
    c = rp["case"]
    c["id"] = 0
    cp, op = os.path.join(d, "case.ndjson"), os.path.join(d, "out.ndjson")
    if rp["kind"] == "congress":
        vlib.write_ndjson(cp, [{"id": 0, "target": c["target"], "steps": [s["vol"] for s in c["steps"]]}])
        vlib.run_bin("samp", ["congress", "--cases", cp, "--out", op])
        viol, _ = judge_congress(c, vlib.read_ndjson(op)[0])
    elif rp["kind"] == "emf":
        vlib.write_ndjson(cp, [{"id": 0, "rate": c["rate"], "words": c["words"]}])
        vlib.run_bin("samp", ["emf", "--cases", cp, "--out", op])
        viol, _ = judge_weight(c, vlib.read_ndjson(op)[0])
    else:
        vlib.write_ndjson(cp, [{"id": 0, "rate": c["rate"], "words": c["words"]}])
        vlib.run_bin("samp", ["fixed", "--cases", cp, "--out", op])
        o = vlib.read_ndjson(op)[0]
        viol = o.get("panic")
        for row in o.get("rows", []):
            viol = viol or judge_decision(bits_f32(c["rate"]), bits_f32(row["draw"]), True, row["calls"], c["what"])
    log("replay:", f"violation reproduced: {viol}" if viol else "no violation")
    return 1 if viol else 0
