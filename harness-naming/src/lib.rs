//! Recording side of the C07 conformance check (spec/naming/Naming.tla, checks/chk_naming.py).
//!
//! The generated programs (`src/bin/gen_*.rs`, written by tools/gen_naming.py from TLC's paths)
//! build one value per (root type, instance), close it, root it with `RootEntry` and write it into
//! `Rec`, a recording `EntryWriter`: every `ValueWriter::string/metric/error` call becomes one item
//! (name, kind, string value or observations, unit, dimensions); `sample_group()` is recorded as a
//! list of pairs.  One ndjson line per instance on stdout.
use std::borrow::Cow;
use std::fmt::Write as _;
use std::time::SystemTime;

use metrique::writer::{Entry, EntryConfig, EntryWriter};
use metrique_writer_core::value::{MetricFlags, Observation, ValueWriter};
use metrique_writer_core::{Unit, ValidationError, Value};

#[derive(Debug, Clone)]
pub struct Item {
    pub name: String,
    /// "string" | "metric" | "error" | "timestamp"
    pub kind: &'static str,
    pub sval: String,
    pub obs: Vec<String>,
    pub unit: String,
    pub dims: Vec<(String, String)>,
}

#[derive(Default)]
pub struct Rec {
    pub items: Vec<Item>,
    /// names of `value()` calls whose `Value::write` did not call the writer (absent Options)
    pub silent: Vec<String>,
    pub configs: usize,
}

struct RecV<'b> {
    name: String,
    out: &'b mut Vec<Item>,
}

fn obs_str(o: Observation) -> String {
    match o {
        Observation::Unsigned(u) => format!("u:{u}"),
        Observation::Floating(f) => format!("f:{f:?}"),
        Observation::Repeated { total, occurrences } => format!("r:{total:?}:{occurrences}"),
        _ => "other".to_string(),
    }
}

impl ValueWriter for RecV<'_> {
    fn string(self, value: &str) {
        self.out.push(Item { name: self.name, kind: "string", sval: value.to_string(), obs: vec![], unit: String::new(), dims: vec![] });
    }

    fn metric<'a>(
        self,
        distribution: impl IntoIterator<Item = Observation>,
        unit: Unit,
        dimensions: impl IntoIterator<Item = (&'a str, &'a str)>,
        _flags: MetricFlags<'_>,
    ) {
        self.out.push(Item {
            name: self.name,
            kind: "metric",
            sval: String::new(),
            obs: distribution.into_iter().map(obs_str).collect(),
            unit: unit.name().to_string(),
            dims: dimensions.into_iter().map(|(a, b)| (a.to_string(), b.to_string())).collect(),
        });
    }

    fn error(self, error: ValidationError) {
        self.out.push(Item { name: self.name, kind: "error", sval: format!("{error}"), obs: vec![], unit: String::new(), dims: vec![] });
    }
}

impl<'a> EntryWriter<'a> for Rec {
    fn timestamp(&mut self, _timestamp: SystemTime) {
        self.items.push(Item { name: String::new(), kind: "timestamp", sval: String::new(), obs: vec![], unit: String::new(), dims: vec![] });
    }

    fn value(&mut self, name: impl Into<Cow<'a, str>>, value: &(impl Value + ?Sized)) {
        let name: Cow<'a, str> = name.into();
        let before = self.items.len();
        value.write(RecV { name: name.to_string(), out: &mut self.items });
        if self.items.len() == before {
            self.silent.push(name.into_owned());
        }
    }

    fn config(&mut self, _config: &'a dyn EntryConfig) {
        self.configs += 1;
    }
}

fn jstr(out: &mut String, s: &str) {
    out.push('"');
    for c in s.chars() {
        match c {
            '"' => out.push_str("\\\""),
            '\\' => out.push_str("\\\\"),
            '\n' => out.push_str("\\n"),
            c if (c as u32) < 0x20 => {
                let _ = write!(out, "\\u{:04x}", c as u32);
            }
            c => out.push(c),
        }
    }
    out.push('"');
}

/// Write `entry` into a recorder and render `{"id":..,"items":[[name,kind,value,unit],..],"sg":[[k,v],..],"silent":[..]}`.
/// `value` is the string for string items and the observations joined by ',' for metrics.
pub fn record_line(id: &str, entry: &impl Entry) -> String {
    let mut rec = Rec::default();
    entry.write(&mut rec);
    let sg: Vec<(String, String)> = entry.sample_group().map(|(k, v)| (k.to_string(), v.to_string())).collect();
    let mut s = String::with_capacity(256 + rec.items.len() * 64);
    s.push_str("{\"id\":");
    jstr(&mut s, id);
    s.push_str(",\"items\":[");
    for (i, it) in rec.items.iter().enumerate() {
        if i > 0 {
            s.push(',');
        }
        s.push('[');
        jstr(&mut s, &it.name);
        s.push(',');
        jstr(&mut s, it.kind);
        s.push(',');
        if it.kind == "metric" {
            jstr(&mut s, &it.obs.join(","));
        } else {
            jstr(&mut s, &it.sval);
        }
        s.push(',');
        jstr(&mut s, &it.unit);
        if !it.dims.is_empty() {
            s.push_str(",[");
            for (j, (a, b)) in it.dims.iter().enumerate() {
                if j > 0 {
                    s.push(',');
                }
                s.push('[');
                jstr(&mut s, a);
                s.push(',');
                jstr(&mut s, b);
                s.push(']');
            }
            s.push(']');
        }
        s.push(']');
    }
    s.push_str("],\"sg\":[");
    for (i, (k, v)) in sg.iter().enumerate() {
        if i > 0 {
            s.push(',');
        }
        s.push('[');
        jstr(&mut s, k);
        s.push(',');
        jstr(&mut s, v);
        s.push(']');
    }
    s.push_str("],\"silent\":[");
    for (i, n) in rec.silent.iter().enumerate() {
        if i > 0 {
            s.push(',');
        }
        jstr(&mut s, n);
    }
    s.push_str("]}");
    s
}

/// Runs `f` and turns a panic of the code under test into data.
pub fn catch<T>(f: impl FnOnce() -> T + std::panic::UnwindSafe) -> Result<T, String> {
    std::panic::catch_unwind(f).map_err(|e| {
        if let Some(s) = e.downcast_ref::<&str>() {
            s.to_string()
        } else if let Some(s) = e.downcast_ref::<String>() {
            s.clone()
        } else {
            "panic".to_string()
        }
    })
}

/// `record_line`, with a panic of the code under test reported as `{"id":..,"panic":".."}`.
pub fn record_catch<E: Entry>(id: &str, mk: impl FnOnce() -> E + std::panic::UnwindSafe) -> String {
    let idc = id.to_string();
    match catch(move || {
        let e = mk();
        record_line(&idc, &e)
    }) {
        Ok(l) => l,
        Err(p) => {
            let mut s = String::from("{\"id\":");
            jstr(&mut s, id);
            s.push_str(",\"panic\":");
            jstr(&mut s, &p);
            s.push('}');
            s
        }
    }
}
