CONSTANTS
  Depth = 4
  EmitZero = FALSE
  DescUnits = {"Seconds"}
  HistVals = {"v1e6", "v2e31", "vhuge"}
  HistCounts = {1, 2, 5000}
  GaugeOps = {"set"}
  RecHows = {"loop", "many"}
SPECIFICATION Spec
INVARIANT Emit
INVARIANT UnitInv
CONSTRAINT Bound
CHECK_DEADLOCK FALSE
