\* schedules for scheduled replay: flush_interval = 59 s => no deadline (AllowTick = FALSE)
CONSTANTS
  Producers = {1, 2}
  MaxApp = 2
  Cap = 1
  Flushers = {1, 2}
  K = 32
  Results = {"ok", "val", "io"}
  AllowForget = FALSE
  AllowTick = FALSE
SPECIFICATION RSpec
INVARIANT Emit
CONSTRAINT Bound
CHECK_DEADLOCK FALSE
