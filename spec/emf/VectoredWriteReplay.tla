------------------------- MODULE VectoredWriteReplay -------------------------
(***************************************************************************)
(* Script generator for VectoredWrite (C16): every terminated behaviour    *)
(* (every choice of buffers, every sequence of writer answers) is printed  *)
(* as one JSON line: the buffer lengths, and per call of write_vectored    *)
(* the slice lengths the model offers and the writer's answer.  `vw`       *)
(* plays the answers from a scripted io::Write against the real            *)
(* write_all_vectored and logs what it was offered.                        *)
(***************************************************************************)
EXTENDS VectoredWrite, Json

VARIABLE hist

H(ans, k) == hist' = Append(hist, [off |-> Lens(slices), ans |-> ans, k |-> k])

RInit == Init /\ hist = <<>>
RNext == \/ Start /\ UNCHANGED hist
         \/ \E k \in 1..(MaxSlices * MaxLen) : Accept(k) /\ H("acc", k)
         \/ Zero /\ H("zero", 0)
         \/ Interrupted /\ H("intr", 0)
         \/ Hard /\ H("hard", 0)
         \/ Finish /\ UNCHANGED hist
RSpec == RInit /\ [][RNext]_<<vars, hist>>

Emit == pc \in {"ok", "err"} =>
          PrintT(<<"REPLAY", ToJson([lens |-> Lens(bufs), calls |-> hist, res |-> pc,
                                     delivered |-> Len(delivered)])>>)
=============================================================================
