----------------------------- MODULE ServiceMC -----------------------------
(***************************************************************************)
(* Exhaustive exploration of the composition Service.tla for small         *)
(* constants: every interleaving of request handlers (each in any of the   *)
(* allowed modes), their sub-tasks, the operator (attach, flush requests,  *)
(* attach-handle drop) and the queue's writer - including requests that    *)
(* race with the attach and with the shutdown.  TLC checks SvcInv and      *)
(* SilentAfterDetach (the end-to-end statements) and, at the end of every  *)
(* behaviour in which everybody has finished, Quiesced.                    *)
(***************************************************************************)
EXTENDS Service

CONSTANTS
    Plan,        \* handler |-> sequence of the requests it handles one after the other, e.g. <<<<1, 2>>, <<3>>>>
    ModesOf(_),  \* request |-> modes it may choose
    NFlush,      \* number of flush requests of the operator
    EarlyClose   \* TRUE: the stream may be closed at any moment (everything QueueAbs allows);
                 \* FALSE: only during the shutdown (what C05 establishes for the real queue)

\* plans for the configuration files (a cfg file cannot spell a tuple)
Plan1 == <<<<1>>>>                  \* one request
Plan11 == <<<<1>>, <<2>>>>          \* two handlers, one request each
Plan2 == <<<<1, 2>>>>               \* one handler, two requests
Plan21 == <<<<1, 2>>, <<3>>>>       \* two handlers, 2 + 1 requests
Plan111 == <<<<1>>, <<2>>, <<3>>>>  \* three handlers, one request each

AnyMode(e) == {"try", "guard", "fg", "wait", "disc"}
Direct(e) == {"try", "guard"}                                    \* no sub-task
SubFirst(e) == IF e = 1 THEN {"fg", "wait", "disc"} ELSE {"try", "guard"}  \* request 1 has a sub-task
SubTry(e) == IF e = 1 THEN {"wait", "disc"} ELSE {"try"}
TryOnly(e) == {"try"}
DiscOnly(e) == {"disc"}

Handlers == DOMAIN Plan
AllReqs == UNION {{Plan[p][i] : i \in DOMAIN Plan[p]} : p \in Handlers}
OpOf(e) == IF e % 2 = 1 THEN "GetItem" ELSE "PutItem"

\* the owner thread of a request is done with it
OwnerDone(e) == Has(e) /\ (rq[e].ost = "dropped" \/ rq[e].sk = "none")
CanStart(p, i) == /\ ~Has(Plan[p][i])
                  /\ (i > 1 => OwnerDone(Plan[p][i - 1]))

SubBy(e) == IF HasSlot(rq[e].mode) THEN 1 ELSE 0
SubD(e) == IF Enabling(rq[e].mode) THEN 1 ELSE 0

Init == SInit(Cardinality(AllReqs) + 1)

\* Steps of a request that touch nothing but its own glue record and that no other step can observe
\* (creating it, calling try_sink, mutating, the sub-task's mutation).  They commute with every step
\* of every other thread, so exploring them eagerly (before anything else) loses no behaviour of the
\* observable steps: a hand-made partial-order reduction (8x fewer states).
LocalStep(e) ==
    \/ SinkStart(e)
    \/ (rq[e].cnt = 0 /\ Work(e, 1, 1))
    \/ (rq[e].subv = 0 /\ rq[e].clk < 2 /\ SubBy(e) + SubD(e) > 0 /\ SubWork(e, SubBy(e), SubD(e)))
Local ==
    \/ \E p \in Handlers, i \in 1..3 : /\ i \in DOMAIN Plan[p] /\ CanStart(p, i)
                                       /\ \E m \in ModesOf(Plan[p][i]) : ReqStart(p, Plan[p][i], m, OpOf(Plan[p][i]), Plan[p][i])
    \/ \E e \in DOMAIN rq : LocalStep(e)
LocalEnabled ==
    \/ \E p \in Handlers, i \in 1..3 : i \in DOMAIN Plan[p] /\ CanStart(p, i)
    \/ \E e \in DOMAIN rq :
          \/ rq[e].sk = "idle"
          \/ (rq[e].ost = "live" /\ rq[e].cnt = 0)
          \/ (rq[e].gst = "live" /\ rq[e].subv = 0 /\ rq[e].clk < 2 /\ SubBy(e) + SubD(e) > 0)

ReqStep(e) ==
    \/ SinkLin(e) \/ \E ok \in BOOLEAN : SinkEnd(e, ok)
    \/ (rq[e].cnt = 1 /\ (ODropStart(e) \/ TryStart(e)))
    \/ ODropEnd(e) \/ GDropStart(e) \/ GDropEnd(e)
    \/ TryLin(e) \/ \E ok \in BOOLEAN : TryEnd(e, ok)
    \/ QLin(e)
    \/ \E line \in LinesFor(e) : Write(e, line)

Global ==
    \/ \E e \in DOMAIN rq : ReqStep(e)
    \/ QPop \/ (unflushed > 0 /\ WFlush) \/ ((EarlyClose \/ hs = "dropping") /\ WClose)
    \/ AttachStart \/ AttachLin \/ AttachEnd \/ DetachStart \/ DetachLin \/ DetachEnd
    \/ \E f \in 1..NFlush : FlushReq(f) \/ FlushDone(f)

Next == IF LocalEnabled THEN Local ELSE Global

Spec == Init /\ [][Next]_vars

\* everybody has finished
Finished ==
    /\ \A e \in AllReqs : Has(e) /\ OwnerDone(e) /\ rq[e].gst \in {"none", "dropped"}
    /\ Detached
    /\ 1..NFlush \subseteq fdone
AtEnd == Finished => Quiesced

\* vacuity guards: the interesting situations are reachable (each must be VIOLATED when checked as an
\* invariant - the check runs them with expect failure)
ReachRaceLoss == ~(\E e \in DOMAIN rq : rq[e].mode = "guard" /\ rq[e].ost = "dropped" /\ Detached /\ e \notin Written /\ rq[e].sk = "has")
ReachHandBack == ~(Detached /\ errd # {} /\ okd # {})
ReachSubAbsent == ~(\E i \in 1..Len(out) : rq[out[i].e].mode = "disc" /\ out[i].sub = -1 /\ rq[out[i].e].subv = 1)
=============================================================================
