---------------------------- MODULE EntryDeriveNeg ----------------------------
(***************************************************************************)
(* The definitions `#[derive(Entry)]` documents as REJECTED (the negations   *)
(* of the guards of EntryDerive!Field / Root): a root container with some    *)
(* well-formed fields, then exactly one defective declaration.  Every such   *)
(* behaviour is printed with the diagnostic the macro must produce           *)
(* (checks_duplicate_names, checks_duplicate_timestamps, FieldMetricAttr::   *)
(* try_parse, Namer::unspecified, NameStyle::try_parse); the check compiles  *)
(* all of them in one program and expects exactly that error at exactly that *)
(* definition - and none at the well-formed control definitions next to it.  *)
(***************************************************************************)
EXTENDS EntryDerive

VARIABLE rej       \* "" or the expected diagnostic
nvars == <<toks, stack, items, sg, total, phase, rej>>

Combos == {"ignore+name", "flatten+name", "timestamp+name", "ignore+sample_group", "timestamp+sample_group",
           "timestamp+format", "flatten+ignore", "flatten+timestamp", "flatten+sample_group", "ignore+format"}
ComboMsg == "can only combine `name` and `sample_group` in `#[entry]`"

Reject(tok, msg) ==
    /\ toks' = Append(toks, tok)
    /\ rej' = msg
    /\ phase' = "rejected"
    /\ UNCHANGED <<stack, items, sg, total>>

\* name `..` is used more than once: an override that repeats the name of an earlier field OF THE SAME VARIANT
DupName == /\ CanAdd
           /\ \E nm \in Top.names :
                 Reject([t |-> "B", d |-> "dupname", name |-> nm], "name `" \o nm \o "` is used more than once")
\* can't have more than one `timestamp`
DupTs == /\ CanAdd /\ Top.hasTs
         /\ Reject([t |-> "B", d |-> "dupts"], "can't have more than one `timestamp`")
\* must specify `name` for tuple fields
TupleUnnamed == /\ CanAdd /\ ShapeOf(Top.form) = "tuple"
                /\ \E k \in ValueKinds \cap Kinds :
                      Reject([t |-> "B", d |-> "tupleunnamed", k |-> k], "must specify `name` for tuple fields")
EmptyName == /\ CanAdd
             /\ Reject([t |-> "B", d |-> "emptyname"], "`name` can't be empty")
BadCombo == /\ CanAdd
            /\ \E c \in Combos : Reject([t |-> "B", d |-> "combo", c |-> c], ComboMsg)
UnknownAttr == /\ CanAdd
               /\ Reject([t |-> "B", d |-> "unknownattr"], "Unknown field: `bogus`")
\* unknown name style `..` on the container or on the chosen variant
BadStyle == /\ phase = "root"
            /\ \E form \in Forms, where \in {"container", "variant"} :
                  /\ (where = "variant" => IsEnum(form))
                  /\ toks' = <<[t |-> "C", form |-> form, ra |-> IF where = "container" THEN "Title Case" ELSE "none",
                                vra |-> IF where = "variant" THEN "Title Case" ELSE "inherit"]>>
                  /\ rej' = "unknown name style `Title Case`"
                  /\ phase' = "rejected"
                  /\ UNCHANGED <<stack, items, sg, total>>

Bad == DupName \/ DupTs \/ TupleUnnamed \/ EmptyName \/ BadCombo \/ UnknownAttr \/ BadStyle

NInit == Init /\ rej = ""
NNext == \/ (RootAny \/ FieldAny) /\ UNCHANGED rej
         \/ Bad
NSpec == NInit /\ [][NNext]_nvars

\* a rejected definition has exactly one defect, and it is one the accepting machine has a guard for
OneDefect == (phase = "rejected") <=> (rej # "")
NegLine == [toks |-> toks, msg |-> rej]
NegEmit == /\ OneDefect
           /\ (phase = "rejected") => PrintT(<<"REPLAY", ToJson(NegLine)>>)
=============================================================================
