CONSTANTS
  Users = {"t1", "t2"}
  Workers = {"r1"}
  Runtimes = {"r1", "r2"}
  Sources = {"m1", "tk", "st"}
  Static = {"st"}
  TLVals = {"m1", "sys"}
  RtVals = {"tk", "st"}
  XVals = {}
  MaxGuards = 1
  MaxEnter = 1
  MaxClock = 1000
  MaxInst = 0
  Deltas = {1}
  Actors = {"t1", "r1"}
  Ops = {"Set", "Drop", "Enter", "RtInstall", "RtInstallCur", "RtDrop"}
  Depth = 3
  Bug = "none"
SPECIFICATION RSpec
INVARIANTS Emit
CHECK_DEADLOCK FALSE
