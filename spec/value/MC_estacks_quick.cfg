CONSTANTS
  Depth = 2
  Bases = {"E"}
SPECIFICATION Spec
INVARIANT Transparent
INVARIANT OnlyAdditions
INVARIANT Emit
INVARIANT EmitUnits
CONSTRAINT Bound
CHECK_DEADLOCK FALSE
