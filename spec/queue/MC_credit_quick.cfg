\* C04 bounded progress at the level of the whole writer loop: capacity 2, a stream that may reject entries,
\* one flush request, the deadline may pass at any time (K = 1: the clock is read after every entry)
CONSTANTS
  Producers = {1}
  MaxApp = 3
  Cap = 2
  Flushers = {1}
  K = 1
  Results = {"ok", "io"}
  AllowForget = FALSE
  AllowTick = TRUE
SPECIFICATION Spec
INVARIANTS TypeOK AbsInv BoundedBatch EbwExact NoParkWithWaiters
CHECK_DEADLOCK FALSE
