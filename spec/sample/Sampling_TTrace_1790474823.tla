---- MODULE Sampling_TTrace_1790474823 ----
EXTENDS Sequences, TLCExt, Toolbox, Naturals, TLC, Sampling, Sampling_TEConstants

_expression ==
    LET Sampling_TEExpression == INSTANCE Sampling_TEExpression
    IN Sampling_TEExpression!expression
----

_trace ==
    LET Sampling_TETrace == INSTANCE Sampling_TETrace
    IN Sampling_TETrace!trace
----

_inv ==
    ~(
        TLCGet("level") = Len(_TETrace)
        /\
        silent = ((g1 :> 0 @@ g2 :> 0 @@ g3 :> 0))
        /\
        last = ((g1 :> 12 @@ g2 :> 12 @@ g3 :> 1))
        /\
        rate = ((g1 :> <<2028, 4297>> @@ g2 :> <<50700, 73049>> @@ g3 :> <<3900, 4297>>))
        /\
        cnt = ((g1 :> 1 @@ g2 :> 3 @@ g3 :> 4))
        /\
        sum = ((g1 :> 12 @@ g2 :> 17 @@ g3 :> 15))
        /\
        present = ({g1, g2, g3})
        /\
        iv = (4)
        /\
        target = (13)
    )
----

_init ==
    /\ silent = _TETrace[1].silent
    /\ sum = _TETrace[1].sum
    /\ present = _TETrace[1].present
    /\ rate = _TETrace[1].rate
    /\ last = _TETrace[1].last
    /\ cnt = _TETrace[1].cnt
    /\ target = _TETrace[1].target
    /\ iv = _TETrace[1].iv
----

_next ==
    /\ \E i,j \in DOMAIN _TETrace:
        /\ \/ /\ j = i + 1
              /\ i = TLCGet("level")
        /\ silent  = _TETrace[i].silent
        /\ silent' = _TETrace[j].silent
        /\ sum  = _TETrace[i].sum
        /\ sum' = _TETrace[j].sum
        /\ present  = _TETrace[i].present
        /\ present' = _TETrace[j].present
        /\ rate  = _TETrace[i].rate
        /\ rate' = _TETrace[j].rate
        /\ last  = _TETrace[i].last
        /\ last' = _TETrace[j].last
        /\ cnt  = _TETrace[i].cnt
        /\ cnt' = _TETrace[j].cnt
        /\ target  = _TETrace[i].target
        /\ target' = _TETrace[j].target
        /\ iv  = _TETrace[i].iv
        /\ iv' = _TETrace[j].iv

\* Uncomment the ASSUME below to write the states of the error trace
\* to the given file in Json format. Note that you can pass any tuple
\* to `JsonSerialize`. For example, a sub-sequence of _TETrace.
    \* ASSUME
    \*     LET J == INSTANCE Json
    \*         IN J!JsonSerialize("Sampling_TTrace_1790474823.json", _TETrace)

=============================================================================

 Note that you can extract this module `Sampling_TEExpression`
  to a dedicated file to reuse `expression` (the module in the 
  dedicated `Sampling_TEExpression.tla` file takes precedence 
  over the module `Sampling_TEExpression` below).

---- MODULE Sampling_TEExpression ----
EXTENDS Sequences, TLCExt, Toolbox, Naturals, TLC, Sampling, Sampling_TEConstants

expression == 
    [
        \* To hide variables of the `Sampling` spec from the error trace,
        \* remove the variables below.  The trace will be written in the order
        \* of the fields of this record.
        silent |-> silent
        ,sum |-> sum
        ,present |-> present
        ,rate |-> rate
        ,last |-> last
        ,cnt |-> cnt
        ,target |-> target
        ,iv |-> iv
        
        \* Put additional constant-, state-, and action-level expressions here:
        \* ,_stateNumber |-> _TEPosition
        \* ,_silentUnchanged |-> silent = silent'
        
        \* Format the `silent` variable as Json value.
        \* ,_silentJson |->
        \*     LET J == INSTANCE Json
        \*     IN J!ToJson(silent)
        
        \* Lastly, you may build expressions over arbitrary sets of states by
        \* leveraging the _TETrace operator.  For example, this is how to
        \* count the number of times a spec variable changed up to the current
        \* state in the trace.
        \* ,_silentModCount |->
        \*     LET F[s \in DOMAIN _TETrace] ==
        \*         IF s = 1 THEN 0
        \*         ELSE IF _TETrace[s].silent # _TETrace[s-1].silent
        \*             THEN 1 + F[s-1] ELSE F[s-1]
        \*     IN F[_TEPosition - 1]
    ]

=============================================================================



Parsing and semantic processing can take forever if the trace below is long.
 In this case, it is advised to uncomment the module below to deserialize the
 trace from a generated binary file.

\*
\*---- MODULE Sampling_TETrace ----
\*EXTENDS IOUtils, TLC, Sampling, Sampling_TEConstants
\*
\*trace == IODeserialize("Sampling_TTrace_1790474823.bin", TRUE)
\*
\*=============================================================================
\*

---- MODULE Sampling_TETrace ----
EXTENDS TLC, Sampling, Sampling_TEConstants

trace == 
    <<
    ([silent |-> (g1 :> 0 @@ g2 :> 0 @@ g3 :> 0),last |-> (g1 :> 0 @@ g2 :> 0 @@ g3 :> 0),rate |-> (g1 :> <<1, 1>> @@ g2 :> <<1, 1>> @@ g3 :> <<1, 1>>),cnt |-> (g1 :> 0 @@ g2 :> 0 @@ g3 :> 0),sum |-> (g1 :> 0 @@ g2 :> 0 @@ g3 :> 0),present |-> {},iv |-> 0,target |-> 13]),
    ([silent |-> (g1 :> 0 @@ g2 :> 0 @@ g3 :> 0),last |-> (g1 :> 0 @@ g2 :> 0 @@ g3 :> 1),rate |-> (g1 :> <<1, 1>> @@ g2 :> <<1, 1>> @@ g3 :> <<1, 1>>),cnt |-> (g1 :> 0 @@ g2 :> 0 @@ g3 :> 1),sum |-> (g1 :> 0 @@ g2 :> 0 @@ g3 :> 1),present |-> {g3},iv |-> 1,target |-> 13]),
    ([silent |-> (g1 :> 0 @@ g2 :> 0 @@ g3 :> 0),last |-> (g1 :> 0 @@ g2 :> 1 @@ g3 :> 1),rate |-> (g1 :> <<1, 1>> @@ g2 :> <<1, 1>> @@ g3 :> <<1, 1>>),cnt |-> (g1 :> 0 @@ g2 :> 1 @@ g3 :> 2),sum |-> (g1 :> 0 @@ g2 :> 1 @@ g3 :> 2),present |-> {g2, g3},iv |-> 2,target |-> 13]),
    ([silent |-> (g1 :> 0 @@ g2 :> 0 @@ g3 :> 0),last |-> (g1 :> 0 @@ g2 :> 4 @@ g3 :> 12),rate |-> (g1 :> <<1, 1>> @@ g2 :> <<1, 1>> @@ g3 :> <<1, 1>>),cnt |-> (g1 :> 0 @@ g2 :> 2 @@ g3 :> 3),sum |-> (g1 :> 0 @@ g2 :> 5 @@ g3 :> 14),present |-> {g2, g3},iv |-> 3,target |-> 13]),
    ([silent |-> (g1 :> 0 @@ g2 :> 0 @@ g3 :> 0),last |-> (g1 :> 12 @@ g2 :> 12 @@ g3 :> 1),rate |-> (g1 :> <<2028, 4297>> @@ g2 :> <<50700, 73049>> @@ g3 :> <<3900, 4297>>),cnt |-> (g1 :> 1 @@ g2 :> 3 @@ g3 :> 4),sum |-> (g1 :> 12 @@ g2 :> 17 @@ g3 :> 15),present |-> {g1, g2, g3},iv |-> 4,target |-> 13])
    >>
----


=============================================================================

---- MODULE Sampling_TEConstants ----
EXTENDS Sampling

CONSTANTS g1, g2, g3

=============================================================================

---- CONFIG Sampling_TTrace_1790474823 ----
CONSTANTS
    Groups = { g1 , g2 , g3 }
    Vols = { 0 , 1 , 4 , 12 }
    MaxIntervals = 4
    Targets = { 5 , 13 }
    Ttl = 8
    g2 = g2
    g3 = g3
    g1 = g1

INVARIANT
    _inv

CHECK_DEADLOCK
    \* CHECK_DEADLOCK off because of PROPERTY or INVARIANT above.
    FALSE

INIT
    _init

NEXT
    _next

CONSTANT
    _TETrace <- _trace

ALIAS
    _expression
=============================================================================
\* Generated on Sun Sep 27 02:07:24 UTC 2026